#!/bin/sh
# Offline setup: nothing is built or fetched; verify that the interpreter and the
# repository's own dependencies import, and that /repo is what gets imported.
set -e
cd "$(dirname "$0")"
chmod +x check 2>/dev/null || true
NUMBA_CACHE_DIR="$(mktemp -d /tmp/dsim-setup-XXXXXX)" DATAITER_USE_NUMBA=0 PYTHONPATH=/repo:"$(pwd)" \
  /venv/bin/python -c "
import dataiter, numpy, pyarrow, pandas, attd, wcwidth, numba
assert dataiter.__file__.startswith('/repo/'), dataiter.__file__
import dsim.kernel, dsim.engines
print('setup ok: dataiter', dataiter.__version__, 'numpy', numpy.__version__, 'numba', numba.__version__)
"
