#!/venv/bin/python
"""
tools/seed_mutant.py <srcdir> <property> <name> [--tier quick] [--also C06,C09]

Confirms a seeded change independently (scratch worktree of /repo HEAD outside /repo and
/verif; removed afterwards):
  1. the demonstration passes on the unchanged tree,
  2. the patch applies, the demonstration fails with it,
  3. the repository's own suite still has its 515 stable tests passing with it,
  4. runs ./check <property> (quick) against the patched tree and records whether it is caught.
Writes /verif/seeded/<name>/{patch.diff, demo.py, notes.txt, meta.json}.
"""

import json
import os
import re
import shutil
import subprocess
import sys
import tempfile
import xml.etree.ElementTree as ET

HERE = os.path.dirname(os.path.dirname(os.path.abspath(__file__)))


def sh(cmd, **kw):
    return subprocess.run(cmd, shell=True, capture_output=True, text=True, **kw)


def run_demo(tree, demo):
    nbc = tempfile.mkdtemp(prefix="nbc-")
    env = dict(os.environ, PYTHONPATH=tree, NUMBA_CACHE_DIR=nbc, COLUMNS="100")
    env.pop("DATAITER_USE_NUMBA", None)
    p = subprocess.run(["/venv/bin/python", demo], cwd=tree, env=env, capture_output=True, text=True,
                       timeout=900)
    shutil.rmtree(nbc, ignore_errors=True)
    return p.returncode, (p.stdout + p.stderr)[-400:]


def run_suite(tree):
    nbc = tempfile.mkdtemp(prefix="nbc-")
    xml = os.path.join(nbc, "junit.xml")
    # the suite leaves mkstemp files behind: give it a private TMPDIR that is removed afterwards
    env = dict(os.environ, PYTHONPATH=tree, NUMBA_CACHE_DIR=nbc, TMPDIR=nbc)
    subprocess.run(["/venv/bin/python", "-m", "pytest", "-q", "-p", "no:cacheprovider", "--timeout=900",
                    "--continue-on-collection-errors", f"--junitxml={xml}", "dataiter/test"],
                   cwd=tree, env=env, capture_output=True, text=True, timeout=3600)
    passed = set()
    try:
        for tc in ET.parse(xml).getroot().iter("testcase"):
            if not any(c.tag in ("failure", "error", "skipped") for c in tc):
                passed.add(f"{tc.get('classname')}::{tc.get('name')}")
    except Exception:
        pass
    shutil.rmtree(nbc, ignore_errors=True)
    stable = set(json.load(open("/root/.vp/BASELINE.json"))["stable_pass"])
    return len(stable & passed), sorted(stable - passed)[:5]


def run_check(tree, prop, tier):
    env = dict(os.environ, DSIM_REPO=tree, VERIF_NO_EVIDENCE="1")
    p = subprocess.run([os.path.join(HERE, "check"), prop, "--tier", tier], cwd=HERE, env=env,
                       capture_output=True, text=True, timeout=7200)
    sigs = re.findall(r"^  sig=(\S+)", p.stdout, re.M)
    return p.returncode, sigs[:6], p.stdout[-300:]


def main():
    src, prop, name = sys.argv[1], sys.argv[2], sys.argv[3]
    tier = "quick"
    also = []
    for a in sys.argv[4:]:
        if a.startswith("--also"):
            also = a.split("=", 1)[1].split(",")
        if a.startswith("--tier"):
            tier = a.split("=", 1)[1]
    src = os.path.abspath(src)
    wt = tempfile.mkdtemp(prefix="mutconf-")
    os.rmdir(wt)
    assert sh(f"git -C /repo worktree add --detach {wt} HEAD").returncode == 0
    meta = {"name": name, "property": prop, "source": "independent sub-agent given only the property text "
            "and a scratch worktree", "repo_head": sh("git -C /repo rev-parse --short HEAD").stdout.strip()}
    try:
        demo = os.path.join(src, "demo.py")
        rc0, _ = run_demo(wt, demo)
        meta["demo_exit_unchanged"] = rc0
        ap = sh(f"git -C {wt} apply {src}/patch.diff")
        meta["patch_applies"] = ap.returncode == 0
        if ap.returncode != 0:
            print("PATCH DOES NOT APPLY", ap.stderr)
            return 1
        rc1, tail = run_demo(wt, demo)
        meta["demo_exit_patched"] = rc1
        n, missing = run_suite(wt)
        meta["stable_tests_passing_with_patch"] = n
        meta["stable_tests_missing"] = missing
        results = {}
        for p in [prop] + also:
            rc, sigs, tail = run_check(wt, p, tier)
            results[p] = {"exit": rc, "signatures": sigs, "cmd": f"DSIM_REPO=<patched worktree> ./check {p} --tier {tier}"}
        meta["checks"] = results
        meta["caught_by"] = [p for p, r in results.items() if r["exit"] == 1]
    finally:
        sh(f"git -C /repo worktree remove --force {wt}")
        shutil.rmtree(wt, ignore_errors=True)
    notes = ""
    if os.path.exists(os.path.join(src, "notes.txt")):
        notes = open(os.path.join(src, "notes.txt")).read()
    meta["needs_to_manifest"] = notes.strip()
    ok = meta["demo_exit_unchanged"] == 0 and meta["demo_exit_patched"] != 0 and n == 515
    meta["confirmed"] = ok
    print(json.dumps({k: v for k, v in meta.items() if k != "needs_to_manifest"}, indent=1))
    if ok:
        dst = os.path.join(HERE, "seeded", name)
        os.makedirs(dst, exist_ok=True)
        for f in ("patch.diff", "demo.py", "notes.txt"):
            if os.path.exists(os.path.join(src, f)):
                shutil.copy(os.path.join(src, f), os.path.join(dst, f))
        with open(os.path.join(dst, "meta.json"), "w") as f:
            json.dump(meta, f, indent=1)
    return 0


if __name__ == "__main__":
    sys.exit(main())
