#!/bin/sh
# For every regression trace: must fire on the original tree and not on /repo.
# The original tree is a scratch worktree of commit d385b73 (created here, removed afterwards)
# unless a directory is given as $1.
ORIG="${1:-}"
cd "$(dirname "$0")/.."
made=""
if [ -z "$ORIG" ]; then
  ORIG="$(mktemp -d /tmp/orig-XXXXXX)"; rmdir "$ORIG"
  git -C /repo worktree add --detach "$ORIG" d385b73 >/dev/null 2>&1 || { echo "cannot create worktree"; exit 2; }
  made=1
fi
for f in regressions/*.json; do
  a=$(DSIM_REPO="$ORIG" ./check X --replay "$f" 2>/dev/null | grep -c '^VIOLATION')
  b=$(./check X --replay "$f" 2>/dev/null | grep -c '^VIOLATION')
  echo "$f orig_fires=$a repo_fires=$b"
done
[ -n "$made" ] && git -C /repo worktree remove --force "$ORIG" >/dev/null 2>&1
exit 0
