#!/bin/sh
# For every regression trace: must fire on the original tree (worktree given as $1) and not on /repo.
ORIG="${1:-/tmp/orig}"
cd "$(dirname "$0")/.."
for f in regressions/*.json; do
  a=$(DSIM_REPO="$ORIG" ./check X --replay "$f" 2>/dev/null | grep -c '^VIOLATION')
  b=$(./check X --replay "$f" 2>/dev/null | grep -c '^VIOLATION')
  echo "$f orig_fires=$a repo_fires=$b"
done
