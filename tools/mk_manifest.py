#!/venv/bin/python
"""Regenerates /verif/MANIFEST.json (kept in one place so it always validates)."""
import json
import os

HERE = os.path.dirname(os.path.dirname(os.path.abspath(__file__)))

NA = {
 "C02": "row subsetting: the result is a pure function of (frame, mask/indices/n); no schedule, clock, storage or fault can influence it (sample's PRNG is pinned inside E1 but cannot decide row-content claims) - needs input-space coverage (property-based testing), a different technique family",
 "C03": "sort: pure function of (frame, keys, directions); its only history-dependent aspect (writing a sentinel into the caller's column) is C06's subject and is decided there",
 "C04": "grouping: pure function of (frame, group columns, functions); the sticky group mark is covered by C06's 'grouping unchanged'",
 "C05": "DataFrame joins: pure functions of two operands returning fresh copies; no interleaving, crash point or fault can change the answer",
 "C07": "helper statistics: pure numeric functions of a vector and arguments; the only stateful aspect (accelerated vs Python path, compile order, persisted JIT cache) is C08's subject",
 "C10": "Vector construction / NA model: pure function of the input sequence and dtype",
 "C11": "Vector sort/rank/unique: pure functions of one vector",
 "C13": "in-memory conversions: pure functions through pandas/Arrow/JSON text with no file, process or shared state involved",
 "C19": "dt / regex: element-wise pure functions; the library's only clock reads (dt.now, dt.today) are outside the property",
}

ENGINES = [
 {"name": "e1", "path": "dsim/e1_frames.py", "serves_properties": ["C01", "C06", "C09", "C20"],
  "kind_free_text": "frame-history machine: seeded histories of public DataFrame/Vector calls (functional, in-place, rejected, callback-fault and render-observer ops) on a pool of live frames; whole-pool invariants after every step"},
 {"name": "e2", "path": "dsim/e2_lod.py", "serves_properties": ["C15", "C16", "C17", "C20"],
  "kind_free_text": "ListOfDicts heap-model machine: plain-Python reference universe in bijection with the real item objects, derivation graph for obsolescence, callback faults, whole-heap isolation check after every step"},
 {"name": "e3", "path": "dsim/e3_storage.py", "serves_properties": ["C12", "C14", "C18"],
  "kind_free_text": "storage simulation: scratch directory as disk, write/read/overwrite/restart histories with disk-full (RLIMIT_FSIZE), stream errors at the n-th call (xopen seam), writer killed at byte k, torn files"},
 {"name": "e12", "path": "dsim/e12_render.py", "serves_properties": ["C20"],
  "kind_free_text": "dispatcher: C20 render observers run inside E1 histories (2/3 of the runs) and E2 histories (1/3)"},
 {"name": "e4", "path": "dsim/e4_jit.py", "serves_properties": ["C08"],
  "kind_free_text": "JIT-cache process simulation: sequences of real interpreter lifetimes sharing one NUMBA_CACHE_DIR, seeded order of first use of accelerated helpers, cache loss/rollback/truncation and kill-during-cache-save faults"},
]

CHECKS = {
 "C15": ("e2", "seeded histories (quick 40k runs / ~550k steps) of ListOfDicts operations checked op-by-op against a plain list-of-dict reference universe by item identity and content; boundary arguments (n=0, index at/past end, negative index, empty list) are drawn on purpose; failures are minimised and replayable",
         "reference semantics = plain Python list/dict code in dsim/e2_lod.py; identity hand-on is assumed per class docstring; undefined inputs (missing keys, mixed-type compare) only checked for isolation",
         "deterministic simulation: seeded op histories vs reference heap model, ddmin-minimised replay", "DESIGN.md 5/C15"),
 "C16": ("e2", "joins/aggregate inside the same heap-model histories: nested-loop first-match reference for left/inner/semi/anti join (identity + whole-heap content), property-level oracle for full_join, dict-of-lists reference for aggregate incl. group order with None last",
         "full_join checked at property level only when operand non-key names are disjoint; self-joins sharing items are isolation-checked only",
         "deterministic simulation: seeded op histories vs reference heap model, ddmin-minimised replay", "DESIGN.md 5/C16"),
 "C17": ("e2", "arbitrary derivation trees (chains, branches, re-merges via +/extend, copy/deepcopy cuts) with editing methods and callback faults; after every step every live item is compared with its reference twin (no write nobody asked for), deepcopy results must share no mutable object with any live item, and obsolescence flags plus the exactly-once warning on next use are checked against a derivation-graph model",
         "dunder-level access may or may not warn; links that hand on no item (clear/aggregate/map) are 'weak' (either state accepted); after an injected callback fault the receiver's/ancestors' obsolescence is unconstrained",
         "deterministic simulation: seeded op histories + callback fault injection vs reference heap/derivation model", "DESIGN.md 5/C17"),
 "C01": ("e1", "seeded histories of public DataFrame operations (constructors incl. scalar/length-one broadcast and mismatched lengths, functional methods, item/attribute assignment and deletion, pop, popitem, colnames assignment, delete-then-reassign, method-named and non-identifier names, rejected arguments, callbacks raising mid-operation) on a pool of live frames; after every step every frame in the pool must be rectangular (1-D DataFrameColumns of equal length, unique names in the modelled order) and reachable coherently by key and attribute (removed names by neither)",
         "attribute access only demanded for identifier names outside dir(DataFrame()); scalar assignment onto a 0-row frame may raise or store an empty column",
         "deterministic simulation: seeded op histories with rejected-argument and callback faults, whole-pool invariants after every step", "DESIGN.md 5/C01"),
 "C06": ("e1", "the same histories with byte-level snapshots of the whole pool before/after every step against a buffer-sharing model: functional methods must leave receiver, arguments and bystanders byte-identical (incl. grouping and order) and return columns that share no memory with any pool column; in-place edits and element writes may only be visible where the model says buffers are shared (copy() is shallow, group_by returns the receiver)",
         "a functional method that raises must leave its operands byte-identical as well; object columns: pointer array only; sharing after an in-place rename is 'maybe'; index/mask arrays passed as arguments are snapshotted too",
         "deterministic simulation: seeded op histories, snapshot/aliasing oracle over the whole pool", "DESIGN.md 5/C06"),
 "C09": ("e1", "chains of select/unselect/rename (incl. permutations)/cbind/update/modify/rbind and in-place colnames assignment (fresh names and permutations) interleaved with other edits; every column the operation does not name must stay byte-identical to the operand's column and keep its relative order, named columns carry the requested names/positions/values, rbind rows are recoverable per input with missing values for absent columns",
         "rename/colnames collisions with a remaining name and dtype mixes NumPy cannot promote are not generated; position of a column replaced by update/modify is not demanded",
         "deterministic simulation: seeded op histories vs column-token reference model", "DESIGN.md 5/C09"),
 "C20": ("e12", "render observers (str, repr, to_string, print_ with seeded max_rows/max_width/truncate_width/max_elements/max_items, COLUMNS 20..200, PRINT_* settings) are scheduled between the steps of E1 and E2 histories on objects only histories reach (0-column frames after deleting every column, method-named/non-identifier/wide-Unicode names, obsolete lists, GeoJSON with null geometry): never raises, pool/settings/NumPy print options unchanged, every column name and dtype label present, min(nrow, max_rows) data rows per block, uniform display width per block, total row count stated iff rows were cut",
         "weakest claim: the structural half is a pure function of (object, settings); width/row-count checks skipped for cells with control characters or line breaks; ListOfDicts: totality and side-effect freedom only",
         "deterministic simulation: render observers interleaved in seeded op histories, side-effect snapshot oracle + structural checks", "DESIGN.md 5/C20"),
 "C08": ("e4", "worlds of 1..3 real interpreter lifetimes sharing one NUMBA_CACHE_DIR; the seed decides which accelerated kernel/signature is first used when, with which others in the same aggregate() call, under which cache setting, and which cache fault (wipe, rollback, prune, truncate .nbc/.nbi) or kill point inside numba's cache save (before index, between index and data, after data, torn temp file) happens; the accelerated history is compared call by call with the same history under USE_NUMBA=False, run as a twin process in two thirds of the worlds and inline in the same process otherwise (values rtol 1e-9 / 1e-4 for float32 input, missing positions, result dtype); worlds also contain failing aggregations (poison calls), helper-object reuse and narrow dtypes; ordered first-use pair coverage is measured",
         "domain = helper x dtype combinations both paths accept; under an injected cache fault the accelerated call may raise or recompile but never return different data; a lifetime in which dataiter disabled Numba at import is skipped",
         "deterministic simulation: seeded process-lifetime schedules over a shared JIT cache with crash/cache-loss fault injection, differential oracle vs Python path", "DESIGN.md 5/C08"),
 "C12": ("e3", "seeded storage histories (writes to fresh/nested/overwritten paths, reads, truncations) over all formats x suffixes x sep/header/encoding options inside a stated representable domain, with disk-full at byte k (RLIMIT_FSIZE; reaches pyarrow/NumPy native writers) and stream errors at the n-th write/read through the xopen seam; oracle: an acknowledged write reads back equal (names, order, values, missing positions, dtypes for binary formats) immediately and at any later point of the history, compressed suffixes carry the compressor's magic",
         "a write that raised promises nothing about its path; torn-file reads are not judged; documents stay inside the representable domain listed in the evidence",
         "deterministic simulation: seeded write/read/overwrite histories with disk-full and stream-error injection vs reference document model", "DESIGN.md 5/C12"),
 "C14": ("e3", "on every file the storage history has produced (incl. torn ones) the module-level alias is compared with the class method for seeded keyword combinations (same value or same exception type), and restricted/typed reads are compared with read-everything-then-select-and-cast for seeded subsets and orderings of columns/keys",
         "restricted == full-then-select is compared as a name->column mapping and only on intact files; casts limited to int->float/object, id->float/str for ListOfDicts",
         "deterministic simulation: seeded storage histories, route-equivalence oracle over intact and torn files", "DESIGN.md 5/C14"),
 "C18": ("e3", "feature collections (heterogeneous property sets, 7 geometry types + null, extra top-level members incl. names needing escaping, indent, encodings, suffixes) are written by an independent writer (json.dump), read with GeoJSON.read, compared with the model, written with GeoJSON.write under disk-full / stream-error faults, loaded with the stdlib and re-read; ack => valid JSON with the same features in order and an equal re-read",
         "property values homogeneous per key; 'properties': null, a property named 'geometry' and NaN/inf are outside the domain",
         "deterministic simulation: seeded GeoJSON round trips with I/O fault injection, independent stdlib writer/reader as oracle", "DESIGN.md 5/C18"),
}


def chk(pid):
    engine, text, note, tech, ref = CHECKS[pid]
    return {
        "property_id": pid,
        "quick_cmd": f"./check {pid} --tier quick",
        "thorough_cmd": f"./check {pid} --tier thorough",
        "evidence_file": f"/verif/evidence/{pid}.json",
        "replay_cmd_template": "./check " + pid + " --replay {path}",
        "engine": engine,
        "level_claimed": {"category": "exploration", "text": text, "design_ref": ref},
        "level_note": note,
        "technique": tech,
    }


def main():
    claimed = sorted(CHECKS)
    na = dict(NA)
    allp = [json.loads(l)["id"] for l in open(os.path.join(HERE, "properties.jsonl"))]
    for p in allp:
        if p not in claimed and p not in na:
            na[p] = "not yet built in this tree (claimed in DESIGN.md; check under construction)"
    m = {
        "version": 1,
        "setup_cmd": "./setup.sh",
        "hooks": {
            "guard": "OTSALOMA_DATAITER_VERIF",
            "enable": "no source hook exists: every seam is reached from outside (module attributes, environment, rlimits, subprocess lifetimes); ./check exports OTSALOMA_DATAITER_VERIF=1 for form only and imports /repo's working tree via PYTHONPATH",
            "baseline_off_cmd": "cd /repo && NUMBA_CACHE_DIR=$(mktemp -d) /venv/bin/python -m pytest -ra -q -p no:cacheprovider --timeout=900 --continue-on-collection-errors",
            "source_commits": [],
            "add_only": True,
        },
        "engines": ENGINES,
        "checks": [chk(p) for p in claimed],
        "not_applicable": [{"property_id": k, "reason": v} for k, v in sorted(na.items())],
        "notes": "Deterministic simulation with fault injection; see DESIGN.md. Env: VERIF_SEED, VERIF_TIER, VERIF_BUDGET_S, VERIF_RUNS, VERIF_WORKERS. Known findings / repaired defects: known_findings.txt. Regression traces of repaired defects (replayed first by every check): regressions/.",
    }
    with open(os.path.join(HERE, "MANIFEST.json"), "w") as f:
        json.dump(m, f, indent=1)
        f.write("\n")


if __name__ == "__main__":
    main()
