#!/venv/bin/python
"""Regenerates /verif/SENSITIVITY.md from seeded/*/meta.json."""
import glob
import json
import os

HERE = os.path.dirname(os.path.dirname(os.path.abspath(__file__)))
NOTES = {}
if os.path.exists(os.path.join(HERE, "seeded", "HISTORY.json")):
    NOTES = json.load(open(os.path.join(HERE, "seeded", "HISTORY.json")))
out = ["# Sensitivity: seeded changes and which checks catch them", "",
       "Every change below was written by an independent sub-agent that saw only the property text and a",
       "scratch worktree (nothing from /verif). Each was re-confirmed by `tools/seed_mutant.py` in a fresh",
       "scratch worktree of /repo HEAD: the demonstration passes on the unchanged tree and fails with the",
       "patch, the repository's 515 stable tests still pass with the patch, and the property's *quick*",
       "check was run against the patched tree (`DSIM_REPO=<worktree> ./check <ID>`). Nothing here is ever",
       "applied to /repo.", "",
       "| change | property | what it needs to manifest | caught by (quick) | first signatures | history |",
       "|---|---|---|---|---|---|"]
for f in sorted(glob.glob(os.path.join(HERE, "seeded", "*", "meta.json"))):
    d = json.load(open(f))
    need = " ".join((d.get("needs_to_manifest") or "").split())[:260].replace("|", "/")
    sigs = "; ".join(s.replace("|", "/") for s in d["checks"][d["property"]]["signatures"][:2])
    out.append(f"| {d['name']} | {d['property']} | {need} | {', '.join(d['caught_by']) or '**MISSED**'} | {sigs} | {NOTES.get(d['name'], '')} |")
missed = [1 for f in glob.glob(os.path.join(HERE, "seeded", "*", "meta.json")) if not json.load(open(f))["caught_by"]]
out += ["", f"Total: {len(glob.glob(os.path.join(HERE, "seeded", "*", "meta.json")))} changes, {len(missed)} currently missed by the quick tier."]
open(os.path.join(HERE, "SENSITIVITY.md"), "w").write("\n".join(out) + "\n")
print("\n".join(out[-3:]))
