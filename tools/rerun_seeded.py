#!/venv/bin/python
"""
tools/rerun_seeded.py [--jobs N] [names...]
Re-runs the quick check of every seeded change against a scratch worktree of /repo HEAD with the
patch applied (outside /repo and /verif, removed afterwards) and updates seeded/<name>/meta.json
("checks", "caught_by", "rerun_at_verif_commit").  Nothing is applied to /repo.
"""
import glob
import json
import os
import re
import shutil
import subprocess
import sys
import tempfile
from concurrent.futures import ThreadPoolExecutor

HERE = os.path.dirname(os.path.dirname(os.path.abspath(__file__)))


def sh(cmd):
    return subprocess.run(cmd, shell=True, capture_output=True, text=True)


def one(name):
    d = os.path.join(HERE, "seeded", name)
    meta = json.load(open(os.path.join(d, "meta.json")))
    wt = tempfile.mkdtemp(prefix="mutrerun-")
    os.rmdir(wt)
    if sh(f"git -C /repo worktree add --detach {wt} HEAD").returncode != 0:
        return name, None
    try:
        if sh(f"git -C {wt} apply {d}/patch.diff").returncode != 0:
            return name, "patch does not apply to /repo HEAD any more"
        props = list(meta.get("checks", {meta["property"]: None}))
        results = {}
        for p in props:
            env = dict(os.environ, DSIM_REPO=wt, VERIF_NO_EVIDENCE="1")
            if name.startswith("C08"):
                env["VERIF_WORKERS"] = "16"
            r = subprocess.run([os.path.join(HERE, "check"), p, "--tier", "quick"], cwd=HERE, env=env,
                               capture_output=True, text=True, timeout=7200)
            results[p] = {"exit": r.returncode, "signatures": re.findall(r"^  sig=(\S+)", r.stdout, re.M)[:6],
                          "cmd": f"DSIM_REPO=<patched worktree> ./check {p} --tier quick"}
        meta["checks"] = results
        meta["caught_by"] = [p for p, r in results.items() if r["exit"] == 1]
        meta["rerun_at_verif_commit"] = sh(f"git -C {HERE} rev-parse --short HEAD").stdout.strip()
        json.dump(meta, open(os.path.join(d, "meta.json"), "w"), indent=1)
        return name, meta["caught_by"]
    finally:
        sh(f"git -C /repo worktree remove --force {wt}")
        shutil.rmtree(wt, ignore_errors=True)


def main():
    jobs = 4
    names = []
    for a in sys.argv[1:]:
        if a.startswith("--jobs"):
            jobs = int(a.split("=")[1])
        else:
            names.append(a)
    if not names:
        names = sorted(os.path.basename(os.path.dirname(f))
                       for f in glob.glob(os.path.join(HERE, "seeded", "*", "meta.json")))
    light = [n for n in names if not n.startswith("C08")]
    heavy = [n for n in names if n.startswith("C08")]
    with ThreadPoolExecutor(jobs) as ex:
        for name, caught in ex.map(one, light):
            print(name, caught, flush=True)
    for n in heavy:
        print(*one(n), flush=True)


if __name__ == "__main__":
    main()
