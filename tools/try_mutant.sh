#!/bin/sh
# tools/try_mutant.sh <dir with patch.diff [+ demo.py]> <property> [tier]
# Applies the patch in a scratch worktree of /repo HEAD (outside /repo and /verif), checks that the
# demonstration fails there, runs ./check <property> against that tree, removes the worktree.
set -u
DIR="$(cd "$1" && pwd)"; PROP="$2"; TIER="${3:-quick}"
HERE="$(cd "$(dirname "$0")/.." && pwd)"
WT="/tmp/mutrun-$$"
git -C /repo worktree add --detach "$WT" HEAD >/dev/null 2>&1 || exit 3
cleanup() { git -C /repo worktree remove --force "$WT" >/dev/null 2>&1; rm -rf "$WT"; }
trap cleanup EXIT INT TERM
if ! git -C "$WT" apply "$DIR/patch.diff"; then echo "PATCH-DOES-NOT-APPLY"; exit 3; fi
if [ -f "$DIR/demo.py" ]; then
  NBC="$(mktemp -d /tmp/nbc-XXXXXX)"
  ( cd "$WT" && NUMBA_CACHE_DIR="$NBC" PYTHONPATH="$WT" COLUMNS=100 timeout 600 /venv/bin/python "$DIR/demo.py" >/dev/null 2>&1 )
  echo "demo exit with patch: $?"
  rm -rf "$NBC"
fi
cd "$HERE"
DSIM_REPO="$WT" VERIF_NO_EVIDENCE=1 ./check "$PROP" --tier "$TIER" 2>&1 | grep -E "^VIOLATION|^  sig|KNOWN-FINDING|HARNESS|dsim\] C" | cut -c1-400 | head -12
