import sys
from dsim.cli import main
sys.exit(main())
