# -*- coding: utf-8 -*-
"""
One simulated interpreter lifetime of E4 (DESIGN.md section 4, E4).

Reads a JSON spec on stdin, writes one JSON line per event on stdout:
  {"ev": "boot", "numba": bool, ...}
  {"ev": "call", "i": n, "ref": {...}, "acc": {...}}
  {"ev": "end", "saves": n}
The process may be killed (os._exit(137)) by the injected crash point inside
numba's cache save; the parent then only sees the lines flushed so far.
"""

import json
import os
import sys


def emit(obj):
    sys.stdout.write(json.dumps(obj) + "\n")
    sys.stdout.flush()


def install_crash(crash, counters):
    """
    crash = {"save": s, "phase": "before_index" | "between" | "after_data" | "torn_data"}
    counts IndexDataCacheFile.save() invocations (1-based, includes the probe
    function compiled by dataiter/__init__.py).
    """
    from numba.core import caching
    cls = caching.IndexDataCacheFile
    orig_save = cls.save
    orig_save_index = cls._save_index
    orig_save_data = cls._save_data

    def die():
        sys.stdout.flush()
        os._exit(137)

    def save(self, key, data):
        counters["saves"] += 1
        counters["current"] = counters["saves"]
        counters["index_written"] = False
        return orig_save(self, key, data)

    def _save_index(self, overloads):
        hit = crash and counters.get("current") == crash["save"]
        if hit and crash["phase"] == "before_index":
            die()
        out = orig_save_index(self, overloads)
        counters["index_written"] = True
        return out

    def _save_data(self, name, data):
        hit = crash and counters.get("current") == crash["save"]
        if hit and crash["phase"] in ("before_index", "between"):
            # "before_index" with an already existing index entry never reaches
            # _save_index: treat it as a crash before the data write
            die()
        if hit and crash["phase"] == "torn_data":
            # process dies while the temporary file is half written
            blob = self._dump(data)
            path = self._data_path(name)
            with open(path + ".tmp.deadbeefdeadbeef", "wb") as f:
                f.write(blob[:max(1, len(blob) // 2)])
            die()
        out = orig_save_data(self, name, data)
        if hit and crash["phase"] == "after_data":
            die()
        return out

    cls.save = save
    cls._save_index = _save_index
    cls._save_data = _save_data


def build_column(col):
    import numpy as np
    dtype = col["dtype"]
    vals = col["values"]
    if dtype in ("float64", "float32", "float16"):
        return np.array([np.nan if v is None else v for v in vals], dtype)
    if dtype.startswith("datetime64"):
        arr = np.array([0 if v is None else v for v in vals], "int64").astype(dtype)
        for i, v in enumerate(vals):
            if v is None:
                arr[i] = np.datetime64("NaT")
        return arr
    if dtype == "bool":
        return np.array(vals, bool)
    if dtype == "object":
        return np.array(list(vals) + [None], object)[:-1]
    return np.array(vals, dtype)


def encode_frame(data):
    import numpy as np
    out = {}
    for name in data.colnames:
        col = data[name]
        values = []
        for v in col:
            if isinstance(v, (np.floating, float)):
                f = float(v)
                values.append("NaN" if f != f else ("inf" if f == float("inf") else
                                                   "-inf" if f == float("-inf") else f))
            elif isinstance(v, np.datetime64):
                values.append("NaT" if np.isnat(v) else str(v))
            elif isinstance(v, (np.bool_, bool)):
                values.append(bool(v))
            elif isinstance(v, (np.integer, int)):
                values.append(int(v))
            elif v is None:
                values.append(None)
            else:
                values.append("<" + type(v).__name__ + ">" + str(v))
        out[name] = {"dtype": str(col.dtype), "values": values}
    return out


def main():
    spec = json.load(sys.stdin)
    os.environ["DATAITER_USE_NUMBA_CACHE"] = "1" if spec.get("use_cache", True) else "0"
    os.environ.pop("DATAITER_USE_NUMBA", None)
    counters = {"saves": 0}
    install_crash(spec.get("crash"), counters)
    import io
    import contextlib
    buf = io.StringIO()
    with contextlib.redirect_stdout(buf):
        import dataiter as di
    import numpy as np
    emit({"ev": "boot", "numba": bool(di.USE_NUMBA), "cache": bool(di.USE_NUMBA_CACHE),
          "stdout": buf.getvalue()[:200], "file": di.__file__})
    numba_ok = bool(di.USE_NUMBA)
    helpers_by_id = {}

    def make_helper(h):
        hid = h.get("id")
        if h.get("reuse") and hid in helpers_by_id:
            return helpers_by_id[hid]
        fn = getattr(di, h["fn"])
        kw = dict(h.get("kwargs") or {})
        if h["fn"] == "nth":
            f = fn(h["col"], kw.pop("index"), **kw)
        elif h["fn"] == "quantile":
            f = fn(h["col"], kw.pop("q"), **kw)
        elif h["fn"] == "count" and h.get("col") is None:
            f = fn(**kw)
        else:
            f = fn(h["col"], **kw)
        if hid is not None:
            helpers_by_id[hid] = f
        return f

    for i, call in enumerate(spec["calls"]):
        cols = {"g": np.array(call["g"], "int64")}
        for name, col in call["cols"].items():
            cols[name] = build_column(col)
        rec = {"ev": "call", "i": i}
        mode = spec.get("mode", "both")
        paths = {"both": ("ref", "acc"), "acc": ("acc",), "ref": ("ref",)}[mode]
        for path in paths:
            di.USE_NUMBA = (path == "acc") and numba_ok and call.get("accelerated", True)
            if path == "acc" and not numba_ok:
                rec["acc"] = {"skipped": "numba disabled at boot"}
                continue
            if path == "acc" and not call.get("accelerated", True) and mode == "both":
                rec["acc"] = {"skipped": "USE_NUMBA switched off for this call"}
                continue
            out = io.StringIO()
            try:
                with contextlib.redirect_stdout(out):
                    data = di.DataFrame(**{k: v.copy() for k, v in cols.items()})
                    helpers = {h["name"]: make_helper(h) for h in call["helpers"]}
                    stat = data.group_by("g").aggregate(**helpers)
                rec[path] = {"frame": encode_frame(stat)}
            except BaseException as e:
                if isinstance(e, (KeyboardInterrupt, SystemExit)):
                    raise
                rec[path] = {"error": type(e).__name__, "msg": str(e)[:300]}
            if out.getvalue():
                rec[path]["stdout"] = out.getvalue()[:200]
        di.USE_NUMBA = numba_ok
        emit(rec)
    emit({"ev": "end", "saves": counters["saves"]})


if __name__ == "__main__":
    main()
