# -*- coding: utf-8 -*-
"""
Determinism self-test (DESIGN.md section 7): every run seed must produce the
same event-log digest (a) twice in fresh interpreters, (b) under another
PYTHONHASHSEED, (c) inside the process pool at two worker counts.
"""

import json
import os
import subprocess
import sys

from dsim import kernel

PLAN = {
    # prop: (engine, seeds quick, seeds thorough)
    "C01": ("e1", 200, 2000), "C06": ("e1", 200, 2000), "C09": ("e1", 200, 2000),
    "C20": ("e12", 200, 2000), "C15": ("e2", 300, 3000), "C16": ("e2", 300, 3000),
    "C17": ("e2", 300, 3000), "C12": ("e3", 150, 1500), "C14": ("e3", 150, 1500),
    "C18": ("e3", 150, 1500), "C08": ("e4", 8, 40),
}


def worker(prop, engine_name, n):
    from dsim import engines
    if engine_name != "e4":
        os.environ["DATAITER_USE_NUMBA"] = "0"
    engine = engines.get(engine_name)
    out = []
    for i in range(n):
        seed = kernel.derive_seed(0, engine_name + ":" + prop, i)
        r = engine.run_seed(seed, prop, "quick")
        out.append([r["digest"], r["abstract"], len(r["violations"])])
    print("DIGESTS " + json.dumps(out))


def spawn(prop, engine_name, n, hashseed):
    env = dict(os.environ)
    env["PYTHONHASHSEED"] = str(hashseed)
    p = subprocess.run([sys.executable, os.path.join(kernel.VERIF_DIR, "dsim_main.py"),
                        "selftest-worker", "--engine", engine_name, "--prop", prop, "--n", str(n)],
                       capture_output=True, text=True, env=env, timeout=3600)
    for line in p.stdout.splitlines():
        if line.startswith("DIGESTS "):
            return json.loads(line[8:])
    raise RuntimeError(f"selftest worker failed: rc={p.returncode} {p.stderr[-800:]}")


def pool_digests(prop, engine_name, n, workers):
    if engine_name != "e4":
        os.environ["DATAITER_USE_NUMBA"] = "0"
    results, harness = kernel.fan_out(engine_name, prop, 0, n, "quick", workers, 3600,
                                      chunk=5 if engine_name != "e4" else 1)
    if harness:
        raise RuntimeError(harness[0])
    return [[r["digest"], r["abstract"], len(r["violations"])] for r in results]


def pool_batch_digest(prop, engine_name, n, workers):
    if engine_name != "e4":
        os.environ["DATAITER_USE_NUMBA"] = "0"
    results, harness = kernel.fan_out(engine_name, prop, 0, n, "quick", workers, 3600,
                                      chunk=5 if engine_name != "e4" else 1,
                                      want_samples=())
    if harness:
        raise RuntimeError(harness[0])
    total = kernel.fan_out.last_summary
    return sorted(total.get("chunk_digests", []))


def main(tier, only=None):
    bad = 0
    from concurrent.futures import ThreadPoolExecutor
    jobs = []
    for prop, (engine_name, nq, nt) in sorted(PLAN.items()):
        if only and prop not in only:
            continue
        n = nt if tier == "thorough" else nq
        jobs.append((prop, engine_name, n))

    def one(job):
        prop, engine_name, n = job
        a = spawn(prop, engine_name, n, 0)
        b = spawn(prop, engine_name, n, 0)
        c = spawn(prop, engine_name, n, 12345)
        return job, a, b, c
    with ThreadPoolExecutor(max_workers=5) as ex:
        outs = list(ex.map(one, jobs))
    for (prop, engine_name, n), a, b, c in outs:
        m = min(n, 60 if engine_name != "e4" else 4)
        d4 = pool_batch_digest(prop, engine_name, m, 4)
        d16 = pool_batch_digest(prop, engine_name, m, 16)
        # expected chunk digests from the fresh-interpreter digests
        import hashlib
        step = 5 if engine_name != "e4" else 1
        exp = []
        for lo in range(0, m, step):
            h = hashlib.sha256()
            for x in a[lo:lo + step]:
                h.update(str(x[0]).encode())
            exp.append([lo, h.hexdigest()])
        diffs = {
            "fresh-interpreter-twice": sum(x != y for x, y in zip(a, b)),
            "PYTHONHASHSEED-12345": sum(x != y for x, y in zip(a, c)),
            "pool-4-workers": sum(list(x) != list(y) for x, y in zip(exp, d4)) + abs(len(exp) - len(d4)),
            "pool-16-workers": sum(list(x) != list(y) for x, y in zip(exp, d16)) + abs(len(exp) - len(d16)),
        }
        ok = not any(diffs.values())
        print(f"[selftest] {prop} engine={engine_name} seeds={n} {'OK' if ok else 'DIVERGED'} {diffs}",
              flush=True)
        if not ok:
            bad += 1
            for i, (x, y, z) in enumerate(zip(a, b, c)):
                if x != y or x != z:
                    print(f"   first divergence at run index {i}: {x} {y} {z}")
                    break
    print("[selftest] " + ("all digests agree" if not bad else f"{bad} engine/property pairs diverged"))
    return 0 if not bad else 2
