# -*- coding: utf-8 -*-
"""
Helpers of E1 (frame-history machine): literal column specs -> real columns,
byte-level snapshots, C01 invariants, C09 reference semantics, C20 render checks.
"""

import numpy as np

DTYPES = ["bool", "int", "float", "str", "fixed", "date", "datetime", "object", "timedelta",
          "int32", "float32", "bytes", "datetime_s", "uint8"]

STRS = ["", "a", "b", "bb", "Zed", "ünï", "日本", "wide\U0001d4b3", "line\nbreak", "cr\rret", "ls\u2028sep", "x" * 55, "y" * 50 + "z",
        "a b", "é"]
DATES = ["2020-01-01", "1999-12-31", "1970-01-01", "2024-02-29"]
DATETIMES = ["2020-01-01T10:00:00.500000", "1999-12-31T23:59:59.000000", "1970-01-01T00:00:00.000000"]
FLOATS = [0.0, -0.0, 1.5, -2.25, float("inf"), float("-inf"), 2.0 ** 53 + 2, 1e-7, 3.0, 3.0]
INTS = [0, 1, 1, 2, -3, 7, 2 ** 53 + 1, 42]


def build_column(dtype, values):
    """Literal (dtype, values with None for missing) -> numpy array / Vector input."""
    import dataiter as di
    if dtype == "bool":
        return np.array(values, bool)
    if dtype == "int":
        return np.array(values, "int64")
    if dtype == "float":
        return np.array([np.nan if v is None else v for v in values], "float64")
    if dtype == "str":
        return di.Vector(["" if v is None else v for v in values], str)
    if dtype == "fixed":
        vals = ["" if v is None else v for v in values]
        width = max([len(v) for v in vals] + [1])
        return np.array(vals, f"<U{width}")
    if dtype == "date":
        return np.array(["NaT" if v is None else v for v in values], "datetime64[D]")
    if dtype == "datetime":
        return np.array(["NaT" if v is None else v for v in values], "datetime64[us]")
    if dtype == "object":
        return np.array(list(values) + [None], object)[:-1]
    if dtype == "int32":
        return np.array(values, "int32")
    if dtype == "uint8":
        return np.array(values, "uint8")
    if dtype == "float32":
        return np.array([np.nan if v is None else v for v in values], "float32")
    if dtype == "bytes":
        return np.array([v.encode() if isinstance(v, str) else v for v in values], "S4")
    if dtype == "datetime_s":
        return np.array(["NaT" if v is None else v for v in values], "datetime64[s]")
    if dtype == "timedelta":
        arr = np.array([0 if v is None else v for v in values], "int64").astype("timedelta64[s]")
        for i, v in enumerate(values):
            if v is None:
                arr[i] = np.timedelta64("NaT")
        return arr
    raise AssertionError(dtype)


def gen_values(r, dtype, n, na_rate):
    out = []
    for _ in range(n):
        if dtype not in ("bool", "int", "int32", "bytes", "uint8") and r.random() < na_rate:
            out.append(None)
        elif dtype == "uint8":
            out.append(r.choice([0, 1, 1, 2, 7, 200, 255]))
        elif dtype == "int32":
            out.append(r.choice([0, 1, 1, 2, -3, 7, 2 ** 31 - 1]))
        elif dtype == "float32":
            out.append(r.choice([0.0, 1.5, -2.25, 3.0, 3.0, 0.1]))
        elif dtype == "bytes":
            out.append(r.choice(["ab", "z", "abcd", "ab"]))
        elif dtype == "datetime_s":
            out.append(r.choice(["2020-01-01T10:00:00", "1999-12-31T23:59:59"]))
        elif dtype == "bool":
            out.append(r.random() < 0.5)
        elif dtype == "int":
            out.append(r.choice(INTS))
        elif dtype == "float":
            out.append(r.choice(FLOATS))
        elif dtype in ("str", "fixed"):
            v = r.choice(STRS)
            out.append(v if v else None)
        elif dtype == "date":
            out.append(r.choice(DATES))
        elif dtype == "datetime":
            out.append(r.choice(DATETIMES))
        elif dtype == "timedelta":
            out.append(r.choice([0, 60, 3600, -5, 86400]))
        else:
            out.append(r.choice([1, "a", 2.5, True, None, (1, 2)]))
    if dtype == "object":
        out = [list(v) if isinstance(v, tuple) else v for v in out]
    return out


def snap_column(col):
    """Byte-level snapshot of one column (dtype + content)."""
    dt = str(col.dtype)
    if col.dtype.kind in "OT":
        vals = []
        for v in col:
            vals.append((type(v).__name__, repr(v)))
        return (dt, tuple(vals))
    return (dt, bytes(np.ascontiguousarray(col).tobytes()), col.shape)


def snap_frame(data):
    return (tuple((name, snap_column(dict.__getitem__(data, name))) for name in dict.keys(data)),
            tuple(getattr(data, "_group_colnames", ())))


def describe_snap(s):
    cols, group = s
    out = []
    for name, c in cols:
        out.append(f"{name}:{c[0]}:{c[1] if c[0].startswith(('StringDType', 'object')) else len(c[1])}")
    return "; ".join(out)[:300]


def col_values(col):
    """Logical values (None for missing) for reference comparisons."""
    out = []
    na = col.is_na()
    for v, m in zip(col, na):
        if m:
            out.append(None)
        elif isinstance(v, np.timedelta64):
            out.append(int(v // np.timedelta64(1, "s")))       # generated values are whole seconds
        elif isinstance(v, np.generic):
            out.append(v.item() if not isinstance(v, np.datetime64) else str(v))
        else:
            out.append(v)
    return out


def check_wellformed(di, data, where):
    """C01 structural invariants; returns list of (sig-suffix, detail)."""
    bad = []
    try:
        names = list(dict.keys(data))
        cols = [dict.__getitem__(data, n) for n in names]
    except Exception as e:
        return [("unreadable", f"{where}: {e!r}")]
    for n, c in zip(names, cols):
        if not isinstance(c, di.DataFrameColumn):
            bad.append(("column-not-a-DataFrameColumn", f"{where}: column {n!r} is {type(c).__name__}"))
            return bad
        if c.ndim != 1:
            bad.append(("column-not-one-dimensional", f"{where}: column {n!r} has ndim {c.ndim}"))
            return bad
    lens = [len(c) for c in cols]
    if len(set(lens)) > 1:
        bad.append(("ragged-columns", f"{where}: column lengths {dict(zip(names, lens))}"))
        return bad
    try:
        nrow, ncol = data.nrow, data.ncol
    except Exception as e:
        bad.append(("nrow-ncol-raise", f"{where}: {e!r}"))
        return bad
    if lens and nrow != lens[0] or (not lens and nrow != 0):
        bad.append(("nrow-mismatch", f"{where}: nrow {nrow} but columns have {lens}"))
    if ncol != len(names) or data.colnames != names or len(set(names)) != len(names):
        bad.append(("colnames-mismatch", f"{where}: ncol {ncol}, colnames {data.colnames!r}, keys {names!r}"))
    dc = data.columns
    if len(dc) != len(cols) or any(a is not b for a, b in zip(dc, cols)):
        bad.append(("columns-not-aligned", f"{where}: columns not aligned with colnames"))
    if not all(isinstance(n, str) for n in names):
        bad.append(("non-string-name", f"{where}: {names!r}"))
    return bad


def check_access(di, data, present, removed, builtin, where):
    """C01 key/attribute coherence."""
    bad = []
    for n in present:
        try:
            col = data[n]
        except Exception as e:
            bad.append(("present-key-unreachable", f"{where}: data[{n!r}] raised {e!r}"))
            continue
        if n.isidentifier() and n not in builtin:
            if not hasattr(data, n):
                bad.append(("present-attr-missing", f"{where}: hasattr(data, {n!r}) is False"))
            elif getattr(data, n) is not col:
                bad.append(("attr-differs-from-key", f"{where}: data.{n} is not data[{n!r}]"))
    for n in set(present) | set(removed):
        if n in builtin and n.isidentifier():
            try:
                got = getattr(data, n)
            except Exception as e:
                bad.append(("method-named-attribute-raises", f"{where}: data.{n} raised {e!r}"))
                continue
            if isinstance(got, di.DataFrameColumn) or got is di.DataFrame.COLUMN_PLACEHOLDER:
                bad.append(("method-shadowed-by-column",
                            f"{where}: data.{n} is {type(got).__name__ if not isinstance(got, type) else got.__name__}, "
                            f"not the DataFrame attribute of that name (column names that clash with "
                            f"methods are reachable by key only)"))
    for n in removed:
        if n in present:
            continue
        if n in data:
            bad.append(("removed-key-still-present", f"{where}: {n!r} in data after removal"))
            continue
        try:
            data[n]
            bad.append(("removed-key-reachable", f"{where}: data[{n!r}] still works after removal"))
        except KeyError:
            pass
        except Exception as e:
            bad.append(("removed-key-wrong-error", f"{where}: data[{n!r}] raised {e!r}"))
        if n.isidentifier() and n not in builtin:
            if hasattr(data, n):
                try:
                    what = type(getattr(data, n)).__name__
                except Exception:
                    what = "?"
                bad.append(("removed-name-reachable-by-attribute",
                            f"{where}: hasattr(data, {n!r}) is still True after removal ({what})"))
    return bad


# ---------------------------------------------------------------------------
# C20: data frame rendering

def check_render(di, data, text, max_rows, where, is_geo=False):
    """Structural fidelity of DataFrame.to_string output."""
    import wcwidth
    bad = []
    if not isinstance(text, str):
        return [("not-a-string", f"{where}: {type(text).__name__}")]
    names = list(dict.keys(data))
    if not names:
        if text != "":
            bad.append(("zero-columns-not-empty", f"{where}: {text!r}"))
        return bad
    nrow = data.nrow
    eff = max_rows or di.PRINT_MAX_ROWS
    shown = min(nrow, eff)
    lines = text.splitlines() if text else [""]      # any line boundary a cell smuggles in counts
    cut = eff < nrow
    total = [ln for ln in lines if ln.startswith("... ") and ln.endswith(" rows total")]
    if cut and (not total or str(nrow) not in total[-1]):
        bad.append(("row-total-missing", f"{where}: {nrow} rows cut to {eff} but no total stated"))
    if not cut and total and lines[-1] == total[-1]:
        bad.append(("row-total-without-cut", f"{where}: total stated although nothing was cut"))
    body = lines[:-1] if (total and lines[-1] == total[-1]) else lines
    # blocks are separated by "." / "" marker lines
    blocks, cur = [], None
    for ln in body:
        if ln in (".", ""):
            if cur:
                blocks.append(cur)
            cur = []
        elif cur is not None:
            cur.append(ln)
        else:
            cur = [ln]
    if cur:
        blocks.append(cur)
    control = False
    for n in names:
        col = dict.__getitem__(data, n)
        if col.dtype.kind in "OTU":
            for v in col[:shown]:
                s = (str(v).splitlines() or [""])[0]      # only the first line of a cell is shown
                if any(wcwidth.wcwidth(ch) < 0 for ch in s):
                    control = True
        if any(wcwidth.wcwidth(ch) < 0 for ch in n):
            control = True
    multiline = False
    for n in names:
        col = dict.__getitem__(data, n)
        if col.dtype.kind in "OTU" and any("\n" in str(v) or "\r" in str(v) for v in col[:shown]):
            multiline = True
    if not control:
        for b in blocks:
            if len(b) != shown + 3:
                bad.append(("data-row-count", f"{where}: block has {len(b) - 3} data rows, expected "
                            f"min(nrow={nrow}, max_rows={eff})={shown}; text={text!r}"))
                break
        for b in blocks:
            widths = {wcwidth.wcswidth(ln) for ln in b}
            if len(widths) > 1:
                bad.append(("ragged-block", f"{where}: lines of one block have display widths "
                            f"{sorted(widths)}; text={text!r}"))
                break
    header = " ".join(b[0] for b in blocks if b)
    labels = " ".join(b[1] for b in blocks if len(b) > 1)
    if not control:
        for n in names:
            if n not in header:
                bad.append(("column-name-missing", f"{where}: column {n!r} not in header {header!r}"))
                break
        for n in names:
            col = dict.__getitem__(data, n)
            label = "object" if (is_geo and n == "geometry") else str(col.dtype_label)
            if label not in labels:
                bad.append(("dtype-label-missing", f"{where}: label {label!r} of {n!r} not in {labels!r}"))
                break
    return bad
