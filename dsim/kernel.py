# -*- coding: utf-8 -*-
"""
Common kernel of the deterministic simulator (DESIGN.md section 3).

* one integer (VERIF_SEED) -> run seeds -> one random.Random per run
* trace = replay file (concrete op list, no PRNG needed to replay)
* ddmin minimisation over the op list
* process fan-out with per-task timeouts (HARNESS-ERROR != VIOLATION)
* known-findings file, exit protocol, evidence writer
"""

import faulthandler
import hashlib
import json
import multiprocessing
import os
import sys
import time
import traceback

from concurrent.futures import ProcessPoolExecutor
from concurrent.futures import as_completed

VERIF_DIR = os.path.dirname(os.path.dirname(os.path.abspath(__file__)))
KNOWN_FINDINGS = os.path.join(VERIF_DIR, "known_findings.txt")
EVIDENCE_DIR = os.path.join(VERIF_DIR, "evidence")
REPLAY_DIR = os.path.join(VERIF_DIR, "replays")

EXIT_OK = 0
EXIT_VIOLATION = 1
EXIT_HARNESS = 2

REAL_COMPONENTS = [
    "dataiter (all modules, imported from /repo working tree)",
    "NumPy", "pyarrow", "pandas", "attd", "wcwidth",
    "CPython json/pickle/csv/gzip/bz2/lzma",
    "Linux file layer (scratch directory on the real file system)",
]


def derive_seed(verif_seed, engine, i):
    h = hashlib.sha256(f"{verif_seed}:{engine}:{i}".encode()).digest()
    return int.from_bytes(h[:8], "big")


def canon(obj):
    """Canonical JSON text for digests (no object reprs, no ids)."""
    return json.dumps(obj, sort_keys=True, ensure_ascii=True, default=_canon_default)


def _canon_default(obj):
    import numpy as np
    if isinstance(obj, (np.integer,)):
        return int(obj)
    if isinstance(obj, (np.floating,)):
        return float(obj)
    if isinstance(obj, (np.bool_,)):
        return bool(obj)
    if isinstance(obj, np.ndarray):
        return [str(obj.dtype), obj.tolist()]
    if isinstance(obj, (set, frozenset)):
        return sorted(map(str, obj))
    if isinstance(obj, bytes):
        return "b:" + obj.hex()
    return "<" + type(obj).__name__ + ">" + str(obj)


def digest(obj):
    return hashlib.sha256(canon(obj).encode()).hexdigest()


class Violation(dict):
    """property, oracle, sig, step, detail"""

    def __init__(self, prop, oracle, sig, step, detail):
        super().__init__(property=prop, oracle=oracle, sig=sig, step=step,
                         detail=str(detail)[:600])


class RunResult(dict):
    pass


# ---------------------------------------------------------------------------
# Known findings

def load_known_findings():
    """
    Text file, one entry per line:
      KNOWN-FINDING: property=<id> sig=<signature> <what fails>
      fixed: property=<id> <commit> <what failed>
    Only KNOWN-FINDING lines suppress anything, and only the exact signature.
    """
    known = {}
    fixed = []
    if not os.path.exists(KNOWN_FINDINGS):
        return known, fixed
    with open(KNOWN_FINDINGS, encoding="utf-8") as f:
        for line in f:
            line = line.strip()
            if line.startswith("KNOWN-FINDING:"):
                parts = line.split()
                prop = [x for x in parts if x.startswith("property=")][0][9:]
                sig = [x for x in parts if x.startswith("sig=")][0][4:]
                what = line.split("sig=" + sig, 1)[1].strip()
                known[(prop, sig)] = what
            elif line.startswith("fixed:"):
                fixed.append(line)
    return known, fixed


# ---------------------------------------------------------------------------
# ddmin

def ddmin(ops, test, max_tests=400):
    """
    Minimise list `ops` such that test(ops) stays True.
    Classic ddmin (complements only) followed by single-op removal.
    """
    tests = 0
    n = 2
    ops = list(ops)
    while len(ops) >= 2 and tests < max_tests:
        chunk = max(1, len(ops) // n)
        reduced = False
        for start in range(0, len(ops), chunk):
            candidate = ops[:start] + ops[start + chunk:]
            tests += 1
            if candidate and test(candidate):
                ops = candidate
                n = max(n - 1, 2)
                reduced = True
                break
            if tests >= max_tests:
                break
        if not reduced:
            if chunk == 1:
                break
            n = min(len(ops), n * 2)
    return ops


def rewire_pass(ops, fires, max_tests=150):
    """
    Drop an op that derives handle `out` from handle `t` and let the later ops
    use `t` instead (ddmin alone cannot remove the middle of a derivation chain).
    """
    tests = 0
    i = 0
    while i < len(ops) and tests < max_tests:
        op = ops[i]
        if isinstance(op, dict) and op.get("out") is not None and op.get("t") is not None:
            out, t = op["out"], op["t"]
            cand = []
            for j, o in enumerate(ops):
                if j == i:
                    continue
                o = dict(o)
                if j > i:
                    for key in ("t", "other"):
                        if o.get(key) == out:
                            o[key] = t
                    if "others" in o:
                        o["others"] = [t if x == out else x for x in o["others"]]
                cand.append(o)
            tests += 1
            if fires(cand):
                ops = cand
                continue
        i += 1
    return ops


# ---------------------------------------------------------------------------
# Fan-out

def _worker_regression(args):
    engine_name, prop, path, timeout_s = args
    faulthandler.enable()
    faulthandler.dump_traceback_later(timeout_s, exit=True)
    try:
        from dsim import engines
        engine = engines.get(engine_name)
        with open(path, encoding="utf-8") as f:
            doc = json.load(f)
        try:
            res = engine.replay(doc["trace"], prop)
        except Exception:
            return path, None, traceback.format_exc()
        hit = [v for v in res.get("violations", []) if v["property"] == prop]
        return path, (hit[0] if hit else None), None
    finally:
        faulthandler.cancel_dump_traceback_later()


def _worker_chunk(args):
    engine_name, prop, verif_seed, indices, tier, want_samples, timeout_s = args
    faulthandler.enable()
    faulthandler.dump_traceback_later(timeout_s, exit=True)
    try:
        from dsim import engines
        engine = engines.get(engine_name)
        out = []
        for i in indices:
            seed = derive_seed(verif_seed, engine_name + ":" + prop, i)
            t0 = time.time()
            try:
                res = engine.run_seed(seed, prop, tier)
            except Exception:
                res = RunResult(harness_error=traceback.format_exc())
            res["i"] = i
            res["seed"] = seed
            res["wall"] = time.time() - t0
            if not (res.get("violations") or res.get("harness_error") or i in want_samples):
                res.pop("trace", None)
            out.append(res)
        return compact(out)
    finally:
        faulthandler.cancel_dump_traceback_later()


def compact(results):
    """
    Keep full results only where they are needed (violations, harness errors,
    retained sample traces); everything else is folded into one summary record
    so that millions of runs do not have to be held in memory.
    """
    keep = []
    summ = {"summary": True, "n": 0, "steps": 0, "faults": {}, "probes": {}, "opcount": {},
            "abstract": set(), "digests": [], "pairs": set(), "lifetimes": 0,
            "first": None, "last": None}
    for r in results:
        if r.get("violations") or r.get("harness_error") or r.get("trace") is not None:
            keep.append(r)
        if r.get("harness_error"):
            continue
        summ["n"] += 1
        summ["steps"] += r.get("steps", 0)
        for key in ("faults", "probes", "opcount"):
            for k, n in r.get(key, {}).items():
                summ[key][k] = summ[key].get(k, 0) + n
        if r.get("nontrivial"):
            summ["abstract"].add(r.get("abstract"))
        summ["digests"].append((r["i"], str(r.get("digest"))))
        for a, b in r.get("pairs", []):
            summ["pairs"].add((tuple(a), tuple(b)))
        if summ["first"] is None or r["i"] < summ["first"][0]:
            summ["first"] = (r["i"], r["seed"])
        if summ["last"] is None or r["i"] > summ["last"][0]:
            summ["last"] = (r["i"], r["seed"])
    return keep, summ


def merge_summary(total, summ):
    if total is None:
        return summ
    total["n"] += summ["n"]
    total["steps"] += summ["steps"]
    for key in ("faults", "probes", "opcount"):
        for k, n in summ[key].items():
            total[key][k] = total[key].get(k, 0) + n
    total["abstract"] |= summ["abstract"]
    total["pairs"] |= summ["pairs"]
    h = hashlib.sha256()
    for i, d in sorted(summ["digests"]):
        h.update(d.encode())
    total.setdefault("chunk_digests", []).append((min(i for i, d in summ["digests"]) if summ["digests"] else -1,
                                                  h.hexdigest()))
    total["digests"] = []
    for key, pick in (("first", min), ("last", max)):
        if summ[key] is not None:
            total[key] = summ[key] if total[key] is None else pick(total[key], summ[key])
    return total


def fan_out(engine_name, prop, verif_seed, nruns, tier, workers, budget_s,
            chunk=20, task_timeout_s=600, want_samples=(0, 1, 2)):
    """
    Run seeds 0..nruns-1 (stop dispatching when the wall budget is used up;
    the budget only decides how many seeds run, never what a seed does).
    Returns (results, harness_errors, dispatched).
    """
    t0 = time.time()
    ctx = multiprocessing.get_context("fork")
    results = []
    harness = []
    chunks = [list(range(a, min(a + chunk, nruns))) for a in range(0, nruns, chunk)]
    want_samples = set(want_samples)
    with ProcessPoolExecutor(max_workers=workers, mp_context=ctx) as pool:
        pending = {}
        it = iter(chunks)
        exhausted = False
        total = None

        def submit_more():
            nonlocal exhausted
            while not exhausted and len(pending) < workers * 2:
                if time.time() - t0 > budget_s:
                    exhausted = True
                    break
                try:
                    c = next(it)
                except StopIteration:
                    exhausted = True
                    break
                fut = pool.submit(_worker_chunk, (engine_name, prop, verif_seed, c, tier,
                                                  want_samples, task_timeout_s))
                pending[fut] = c
        submit_more()
        while pending:
            done = next(as_completed(list(pending)))
            c = pending.pop(done)
            try:
                keep, summ = done.result()
                results.extend(keep)
                total = merge_summary(total, summ) if total is not None else merge_summary(
                    {"summary": True, "n": 0, "steps": 0, "faults": {}, "probes": {}, "opcount": {},
                     "abstract": set(), "digests": [], "pairs": set(), "lifetimes": 0,
                     "first": None, "last": None}, summ)
            except Exception as e:
                harness.append(f"worker died on runs {c[0]}..{c[-1]}: {e!r}")
                break
            submit_more()
    results.sort(key=lambda r: r["i"])
    for r in results:
        if r.get("harness_error"):
            harness.append(f"run {r['i']} seed {r['seed']}: {r['harness_error']}")
    fan_out.last_summary = total
    return results, harness


# ---------------------------------------------------------------------------
# Driver

def tier_default(tier, quick, thorough):
    return thorough if tier == "thorough" else quick


def write_replay(prop, engine_name, seed, trace, violation, tag):
    os.makedirs(REPLAY_DIR, exist_ok=True)
    sig = hashlib.sha256(violation["sig"].encode()).hexdigest()[:10]
    path = os.path.join(REPLAY_DIR, f"{prop}-{sig}-{seed}.json")
    doc = {
        "engine": engine_name,
        "property": prop,
        "seed": seed,
        "expected_violation": dict(violation),
        "trace": trace,
        "note": tag,
    }
    with open(path, "w", encoding="utf-8") as f:
        json.dump(doc, f, indent=1, sort_keys=True, default=_canon_default)
    return path


_minimise_deadline = [None]


def minimise(engine, prop, trace, violation):
    """Shrink trace['ops'] while the same (property, sig) still fires."""
    target = (violation["property"], violation["sig"])
    if _minimise_deadline[0] is None:
        _minimise_deadline[0] = time.time() + getattr(engine, "MINIMISE_BUDGET_S", 120)

    def fires(ops):
        if time.time() > _minimise_deadline[0]:
            return False
        t = dict(trace)
        t["ops"] = ops
        try:
            res = engine.replay(t, prop)
        except Exception:
            return False
        return any((v["property"], v["sig"]) == target for v in res.get("violations", []))

    ops = trace["ops"]
    # cut everything after the failing step first
    step = violation.get("step")
    if isinstance(step, int) and 0 <= step < len(ops) and fires(ops[:step + 1]):
        ops = ops[:step + 1]
    if time.time() > _minimise_deadline[0]:
        return trace, False
    if not fires(ops):
        return trace, False
    ops = ddmin(ops, fires, max_tests=getattr(engine, "DDMIN_MAX_TESTS", 400))
    if getattr(engine, "REWIRE", False):
        ops = rewire_pass(ops, fires)
        ops = ddmin(ops, fires, max_tests=100)
    if hasattr(engine, "simplify_ops"):
        ops = engine.simplify_ops(ops, fires)
    t = dict(trace)
    t["ops"] = ops
    return t, True


REGRESSION_DIR = os.path.join(VERIF_DIR, "regressions")


def run_regressions_parallel(engine_name, prop, workers, timeout_s=600):
    hits, errors = [], []
    if not os.path.isdir(REGRESSION_DIR):
        return hits, errors
    paths = [os.path.join(REGRESSION_DIR, n) for n in sorted(os.listdir(REGRESSION_DIR))
             if n.startswith(prop + "-") and n.endswith(".json")]
    if not paths:
        return hits, errors
    ctx = multiprocessing.get_context("fork")
    with ProcessPoolExecutor(max_workers=min(workers, len(paths)), mp_context=ctx) as pool:
        for path, v, err in pool.map(_worker_regression,
                                     [(engine_name, prop, p, timeout_s) for p in paths]):
            if err:
                errors.append(f"regression {os.path.basename(path)}: {err}")
            elif v:
                hits.append((path, v))
    print(f"[dsim] {len(paths)} regression trace(s) replayed, {len(hits)} firing", flush=True)
    return hits, errors


def run_regressions(engine, prop):
    """
    Replay the minimised traces of defects that were repaired with a fix:
    commit (known_findings.txt 'fixed:' lines).  They suppress nothing: if one
    fires again it is an ordinary violation.
    """
    hits = []
    if not os.path.isdir(REGRESSION_DIR):
        return hits
    n = 0
    for name in sorted(os.listdir(REGRESSION_DIR)):
        if not (name.startswith(prop + "-") and name.endswith(".json")):
            continue
        path = os.path.join(REGRESSION_DIR, name)
        with open(path, encoding="utf-8") as f:
            doc = json.load(f)
        n += 1
        try:
            res = engine.replay(doc["trace"], prop)
        except Exception:
            print(f"HARNESS-ERROR regression {name}: {traceback.format_exc()}")
            continue
        for v in res.get("violations", []):
            if v["property"] == prop:
                hits.append((path, v))
                break
    print(f"[dsim] {n} regression trace(s) replayed, {len(hits)} firing", flush=True)
    return hits


def run_check(prop, engine_name, tier, nruns, extra_evidence=None):
    from dsim import engines
    t0 = time.time()
    engine = engines.get(engine_name)
    verif_seed = int(os.environ.get("VERIF_SEED", "0") or 0)
    workers = int(os.environ.get("VERIF_WORKERS", "0") or 0) or min(16, os.cpu_count() or 1)
    budgets = getattr(engine, "BUDGETS_S", (100, 1500))
    budget_s = float(os.environ.get("VERIF_BUDGET_S", "0") or 0) or tier_default(tier, *budgets)
    nruns = int(os.environ.get("VERIF_RUNS", "0") or 0) or nruns
    print(f"[dsim] property={prop} engine={engine_name} tier={tier} VERIF_SEED={verif_seed} "
          f"runs<={nruns} workers={workers} budget_s={budget_s}", flush=True)
    if hasattr(engine, "prepare"):
        engine.prepare(prop, tier)
    regression_hits, reg_errors = run_regressions_parallel(engine_name, prop, workers)
    results, harness = fan_out(engine_name, prop, verif_seed, nruns, tier, workers, budget_s,
                               chunk=getattr(engine, "CHUNK", 20),
                               task_timeout_s=getattr(engine, "TASK_TIMEOUT_S", 600))
    harness = reg_errors + harness
    known, _fixed = load_known_findings()
    target = []
    other = {}
    for r in results:
        for v in r.get("violations", []):
            if v["property"] == prop:
                target.append((r, v))
            else:
                other[v["property"]] = other.get(v["property"], 0) + 1
    by_sig = {}
    for r, v in target:
        by_sig.setdefault(v["sig"], []).append((r, v))
    known_hit = {}
    new_violations = []
    for sig, lst in sorted(by_sig.items()):
        if (prop, sig) in known:
            known_hit[sig] = len(lst)
            print(f"KNOWN-FINDING: property={prop} sig={sig} {known[(prop, sig)]} "
                  f"(hit {len(lst)}x)")
            continue
        r, v = lst[0]
        trace = r.get("trace")
        path = None
        if trace is not None:
            mtrace, ok = minimise(engine, prop, trace, v)
            path = write_replay(prop, engine_name, r["seed"], mtrace, v,
                                "minimised" if ok else "unminimised (minimisation budget used up or not reproducible in-process)")
        new_violations.append((sig, len(lst), path, v))
        print(f"VIOLATION property={prop} replay={path}")
        print(f"  sig={sig} runs={len(lst)} first: run {r['i']} seed {r['seed']} step {v['step']}: {v['detail']}")
    for path, v in regression_hits:
        new_violations.append((v["sig"], 1, path, v))
        print(f"VIOLATION property={prop} replay={path}")
        print(f"  regression trace of a repaired defect fires again: sig={v['sig']} {v['detail']}")
    # evidence
    wall = time.time() - t0
    ev = build_evidence(prop, engine, engine_name, tier, verif_seed, results, wall,
                        known_hit, new_violations, other, harness)
    if extra_evidence:
        ev["coverage"].update(extra_evidence)
    if hasattr(engine, "extra_coverage"):
        ev["coverage"].update(engine.extra_coverage(getattr(fan_out, "last_summary", None) or {}, prop))
    if not os.environ.get("VERIF_NO_EVIDENCE"):     # sensitivity experiments on scratch trees
        os.makedirs(EVIDENCE_DIR, exist_ok=True)
        with open(os.path.join(EVIDENCE_DIR, f"{prop}.json"), "w", encoding="utf-8") as f:
            json.dump(ev, f, indent=1, sort_keys=True, default=_canon_default)
    nres = ev["coverage"]["evaluations"]
    print(f"[dsim] {prop}: runs={nres} steps={ev['coverage']['steps']} "
          f"distinct_nontrivial={ev['coverage']['distinct_nontrivial']} "
          f"faults={ev['coverage']['faults_injected']} wall={wall:.1f}s "
          f"runs/h={ev['coverage']['runs_per_hour']}", flush=True)
    if harness:
        for h in harness[:5]:
            print("HARNESS-ERROR", h)
        return EXIT_HARNESS if not new_violations else EXIT_VIOLATION
    if nres == 0:
        print("HARNESS-ERROR no runs completed")
        return EXIT_HARNESS
    return EXIT_VIOLATION if new_violations else EXIT_OK


def build_evidence(prop, engine, engine_name, tier, verif_seed, results, wall,
                   known_hit, new_violations, other, harness):
    total = getattr(fan_out, "last_summary", None) or {
        "n": 0, "steps": 0, "faults": {}, "probes": {}, "opcount": {}, "abstract": set(),
        "pairs": set(), "first": None, "last": None, "chunk_digests": []}
    n = total["n"]
    digests = hashlib.sha256()
    for i, d in sorted(total.get("chunk_digests", [])):
        digests.update(d.encode())
    samples = [r["trace"] for r in results if r.get("trace") is not None
               and not r.get("harness_error")][:3]
    if not samples:
        samples = [{"note": "no trace retained"}]
    probes = total["probes"]
    zero = sorted(k for k, v in probes.items() if v == 0)
    ev = {
        "property_id": prop,
        "tier": tier,
        "seed": verif_seed,
        "level": "exploration",
        "wall_s": round(wall, 2),
        "violations": len(new_violations),
        "assumptions": getattr(engine, "ASSUMPTIONS", {}).get(prop, []) + [
            "sampling, not enumeration: a clean batch is evidence, not proof",
        ],
        "coverage": {
            "evaluations": n,
            "distinct_nontrivial": len(total["abstract"]),
            "rule": getattr(engine, "RULE", ""),
            "samples": samples,
            "steps": total["steps"],
            "runs_per_hour": int(n / wall * 3600) if wall > 0 else 0,
            "seeds": {"verif_seed": verif_seed,
                      "first_run_seed": total["first"][1] if total["first"] else None,
                      "last_run_seed": total["last"][1] if total["last"] else None,
                      "runs": n},
            "simulated_time": "n/a - no clock in scope of this property; logical steps reported",
            "faults_injected": total["faults"],
            "probes": probes,
            "probes_stuck_at_zero": zero,
            "op_counts": total["opcount"],
            "batch_digest": digests.hexdigest(),
            "real_components": REAL_COMPONENTS + getattr(engine, "REAL_EXTRA", []),
            "stub_components": getattr(engine, "STUBS", []),
            "known_findings_hit": known_hit,
            "regression_traces_firing": [p for s_, n_, p, v_ in new_violations
                                         if p and os.sep + "regressions" + os.sep in p],
            "violation_signatures": [{"sig": s_, "runs": n_, "replay": p, "detail": v["detail"]}
                                     for s_, n_, p, v in new_violations],
            "other_property_oracle_hits": other,
            "harness_errors": harness[:5],
        },
    }
    return ev


def replay_file(path):
    from dsim import engines
    with open(path, encoding="utf-8") as f:
        doc = json.load(f)
    engine = engines.get(doc["engine"])
    prop = doc["property"]
    res = engine.replay(doc["trace"], prop)
    exp = doc.get("expected_violation") or {}
    hit = [v for v in res.get("violations", [])
           if v["property"] == prop and (not exp or v["sig"] == exp.get("sig"))]
    for v in res.get("violations", []):
        print(f"  replayed: property={v['property']} sig={v['sig']} step={v['step']} {v['detail']}")
    if hit:
        print(f"VIOLATION property={prop} replay={path}")
        return EXIT_VIOLATION
    print(f"[dsim] replay of {path}: violation not reproduced")
    return EXIT_OK
