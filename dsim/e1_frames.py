# -*- coding: utf-8 -*-
"""
E1 - frame-history machine (DESIGN.md section 4, E1).  Serves C01, C06, C09, C20.

World: a pool of <=8 live DataFrames.  One simulated caller issues a seeded
history of public calls: constructors/converters, functional methods (result
joins the pool), in-place edits (item/attribute assignment and deletion, pop,
popitem, colnames assignment, group_by, element writes), operations the API
must reject, user callbacks that raise in the middle of an operation, and
render observers.  After EVERY step the WHOLE pool is checked: C01 invariants
and key/attribute coherence, byte-level snapshots against the buffer-sharing
model (C06), the column-token reference model for structural ops (C09), and
rendering totality / side-effect freedom / structure (C20).
"""

import contextlib
import copy
import io
import random

import numpy as np

from dsim import kernel
from dsim import e1_model as M
from dsim.kernel import Violation

NAME = "e1"
REWIRE = True
CHUNK = 20
RUNS = {"C01": (12000, 600000), "C06": (12000, 600000), "C09": (12000, 600000),
        "C20": (10000, 400000)}
RULE = ("one run = one seeded history of 5..40 public DataFrame operations on a pool of <=8 frames "
        "(<=12 rows, <=8 columns, dtypes bool/int64/float64/StringDType/fixed-width <U/date/"
        "datetime/object, 0-row / 0-column / all-missing shapes); non-trivial iff >=3 executed ops "
        "incl. >=1 in-place, rejected or callback-fault op; distinct = distinct sequence of "
        "(op kind, argument class, fault kind, raised?)")
STUBS = [
    "user callbacks (simulator-provided callables built from literal specs; seeded 'raise' and "
    "'wrong length' faults)",
    "np.random.seed() pinned immediately before sample()",
    "terminal width via COLUMNS env per run; dataiter.PRINT_* / DEFAULT_PEEK_* set per run",
    "stdout captured per step",
]
ASSUMPTIONS = {
    "C01": ["attribute access is only demanded for identifier names outside dir(DataFrame()) and "
            "ATTRIBUTES", "scalar assignment to a frame with columns but 0 rows may raise or store "
            "an empty column"],
    "C06": ["a functional method that raises must leave receiver, arguments and bystanders "
            "byte-identical as well (tightened after seeded change C06-c; clean on the unchanged tree)", "object columns: only the pointer "
            "array must be unshared", "copy() shares column buffers (modelled), group_by returns "
            "the receiver"],
    "C09": ["rename maps and colnames lists are fresh names or permutations of existing names "
            "(collisions with a remaining name are undefined and not generated)",
            "update/modify: position of a replaced column is not demanded, only values and the "
            "relative order of untouched columns"],
    "C20": ["block-width and row-count checks are skipped when a shown cell or name contains a "
            "control character (wcwidth undefined) or a line break"],
}

NAMES = ["a", "b", "c", "x", "y", "g", "items", "count", "filter", "nrow", "copy", "a b", "1x",
         "ünï", "_p", "values"]
FUNCTIONAL = {"compare", "filter", "filter_out", "slice", "slice_off", "head", "tail", "sample", "drop_na",
              "unique", "sort", "select", "unselect", "rename", "modify", "cbind", "rbind",
              "update", "join", "aggregate", "count", "copy", "deepcopy", "clear", "convert"}
INPLACE = {"setitem", "delete", "pop", "popitem", "set_colnames", "group_by", "elem_write"}


class SimFault(Exception):
    pass


class World:

    def __init__(self, prop):
        import dataiter as di
        self.di = di
        self.prop = prop
        self.frames = {}
        self.removed = {}        # handle -> names removed and not re-added
        self.names = {}          # handle -> expected names in order
        self.bufs = {}           # handle -> {name: buffer id}
        self.snaps = {}
        self.next_buf = 0
        self.next_handle = 0
        self.dropped = set()
        self.reported = set()
        self.broken = set()
        self.maybe = set()
        self.violations = []
        self.faults = {}
        self.probes = {"colnames_permutation": 0, "delete_then_reassign": 0, "zero_col_frame": 0,
                       "zero_row_frame": 0, "fixed_width_string_key_sorted": 0,
                       "broadcast_scalar": 0, "rejected_length": 0, "method_named_column": 0,
                       "write_through_shallow_copy": 0, "callback_fault_fired": 0,
                       "rbind_absent_column": 0, "rename_permutation": 0, "render_zero_col": 0,
                       "render_wide_unicode": 0, "aliasing_pairs_checked": 0,
                       "elem_write_after_functional": 0, "colnames_shorter_list": 0}
        self.opcount = {}
        self.log = []
        self.abstract = []
        self.step = -1
        self.builtin = set(dir(di.DataFrame())) | set(di.DataFrame.ATTRIBUTES)

    # -- bookkeeping --------------------------------------------------------

    def viol(self, prop, oracle, sig, detail):
        self.violations.append(Violation(prop, oracle, sig, self.step, detail))

    def new_handle(self):
        h = self.next_handle
        self.next_handle += 1
        return h

    def live(self):
        return sorted(set(self.frames) - self.dropped)

    def fresh_bufs(self, names):
        out = {}
        for n in names:
            self.next_buf += 1
            out[n] = self.next_buf
        return out

    def register(self, h, frame, bufs=None, removed=None):
        self.frames[h] = frame
        names = list(dict.keys(frame))
        self.names[h] = names
        self.removed[h] = set(removed or ())
        self.bufs[h] = bufs if bufs is not None else self.fresh_bufs(names)
        self.snaps[h] = M.snap_frame(frame)
        if not names:
            self.probes["zero_col_frame"] += 1
        elif frame.nrow == 0:
            self.probes["zero_row_frame"] += 1
        if any(n in self.builtin for n in names):
            self.probes["method_named_column"] += 1

    # -- whole-pool oracles ---------------------------------------------------

    def check_pool(self, op, changed, raised, operands):
        """
        changed: set of (handle, name) column buffers / handles the model allows
        to differ from the previous snapshot ("*" = the whole handle).
        """
        di = self.di
        kind = op["op"]
        for h in sorted(self.frames):
            if h in self.broken:
                continue
            frame = self.frames[h]
            where = f"after {kind}: frame F{h}"
            for suffix, detail in M.check_wellformed(di, frame, where):
                self.viol("C01", "wellformed", f"C01.wellformed|{kind}|{suffix}", detail)
            try:
                present = list(dict.keys(frame))
                for suffix, detail in M.check_access(di, frame, present, self.removed[h],
                                                     self.builtin, where):
                    key = (h, suffix, detail.split(": ", 1)[-1])
                    if key in self.reported:
                        continue        # a persisting condition is reported at the step that caused it
                    self.reported.add(key)
                    self.viol("C01", "access", f"C01.access|{kind}|{suffix}", detail)
            except Exception as e:
                self.viol("C01", "access", f"C01.access|{kind}|check-raised", f"{where}: {e!r}")
            try:
                now = M.snap_frame(frame)
            except Exception as e:
                self.viol("C01", "wellformed", f"C01.wellformed|{kind}|snapshot-raised", f"{where}: {e!r}")
                continue
            before = self.snaps.get(h)
            if before is not None and now != before and (h, "*") not in changed:
                # which columns differ?
                bcols = dict(before[0])
                ncols = dict(now[0])
                diff = [n for n in set(bcols) | set(ncols)
                        if bcols.get(n) != ncols.get(n) and (h, n) not in changed]
                order = [n for n, c in before[0]] != [n for n, c in now[0]]
                grp = before[1] != now[1]
                if diff or ((order or grp) and not any(x[0] == h for x in changed)):
                    if raised and h in operands and kind in INPLACE:
                        pass        # a failed in-place edit is judged by its own oracle
                    elif kind in INPLACE or kind == "elem_write":
                        self.viol("C06", "alias", f"C06.alias|{kind}|edit-visible-in-another-frame",
                                  f"in-place {kind} on F{op.get('t')} changed F{h} columns {diff} "
                                  f"which share no buffer with it per the documented semantics")
                    elif h in operands:
                        what = "grouping" if grp and not diff else ("order" if order and not diff else "values")
                        self.viol("C06", "mutate", f"C06.mutate|{kind}|operand-{what}-changed",
                                  f"{kind} changed its operand F{h}: columns {diff} "
                                  f"(before {M.describe_snap(before)} after {M.describe_snap(now)}) op={self.brief(op)}")
                    else:
                        self.viol("C06", "mutate", f"C06.mutate|{kind}|bystander-changed",
                                  f"{kind} changed bystander F{h}: columns {diff}")
            self.snaps[h] = now
            # expected names/order for frames edited in place
            exp = self.names.get(h)
            if exp is not None and list(dict.keys(frame)) != exp:
                if not (raised and h in operands):
                    self.viol("C01", "order", f"C01.order|{kind}|column-order-or-set",
                              f"{where}: names {list(dict.keys(frame))!r}, expected {exp!r}")
                self.names[h] = list(dict.keys(frame))

    def check_no_alias(self, op, res, allowed_with=()):
        """Result shares no memory with any pool frame (C06)."""
        kind = op["op"]
        if not isinstance(res, self.di.DataFrame):
            return
        for h in sorted(self.frames):
            f = self.frames[h]
            if f is res or h in self.broken:
                continue
            for n2 in dict.keys(f):
                c2 = dict.__getitem__(f, n2)
                for n1 in dict.keys(res):
                    c1 = dict.__getitem__(res, n1)
                    self.probes["aliasing_pairs_checked"] += 1
                    if np.may_share_memory(c1, c2) and np.shares_memory(c1, c2):
                        if (h, n2, n1) in allowed_with:
                            continue
                        self.viol("C06", "alias", f"C06.alias|{kind}|result-shares-memory-with-operand",
                                  f"{kind}: result column {n1!r} shares memory with F{h}[{n2!r}] "
                                  f"op={self.brief(op)}")
                        return

    def brief(self, op):
        return {k: (v if k != "cols" else [[c[0], c[1]] for c in v]) for k, v in op.items()}

    # -- building values --------------------------------------------------------

    def build_value(self, spec):
        k = spec["kind"]
        if k == "scalar":
            v = spec["value"]
            if spec.get("dtype") == "date":
                return np.datetime64(v)
            return v
        if k == "vector":
            return M.build_column(spec["dtype"], spec["values"])
        if k == "list":
            return list(spec["values"])
        if k == "reshaped":
            # a DataFrameColumn that NumPy has reshaped to 2-D while keeping the subclass
            col = self.di.DataFrameColumn(M.build_column(spec["dtype"], spec["values"]))
            return col.reshape(-1, 1) if spec["shape"] == "col" else col.reshape(1, -1)
        raise AssertionError(k)

    def frame_callable(self, spec):
        c = spec["c"]
        if c == "mask_lit":
            return lambda x: np.array(spec["mask"], bool)
        if c == "raise":
            def f(x, *a):
                raise SimFault("injected callback fault")
            return f
        if c == "nrow_range":
            return lambda x: np.arange(x.nrow)
        if c == "const":
            return lambda x: spec["v"]
        if c == "copycol":
            return lambda x: x[spec["name"]]
        if c == "badlen":
            return lambda x: np.arange(x.nrow + 2)
        if c == "boolcol":
            return lambda x: x[spec["name"]]       # hands the receiver's own boolean column back
        if c == "nrow":
            return lambda x: x.nrow
        if c == "group_vec":
            return lambda x: np.arange(x.nrow)
        if c == "group_frac":
            # an integer for single-row groups, a float for the others
            return lambda x: x.nrow if x.nrow == 1 else x.nrow + 0.5
        if c == "group_badlen":
            return lambda x: np.arange(x.nrow + 2)
        if c == "mutate":
            # a callback that edits the (group) frame it was handed; internal views are private,
            # so this must never write through to the caller's frame
            def mut(x, *a):
                for n in list(dict.keys(x)):
                    col = dict.__getitem__(x, n)
                    if len(col) and col.flags.writeable:
                        try:
                            col[...] = col[::-1].copy()
                            col[0] = col[-1]
                        except Exception:
                            pass
                return x.nrow
            return mut
        if c == "raise_at":
            state = {"n": 0}

            def g(x, *a):
                state["n"] += 1
                if state["n"] == spec["k"]:
                    raise SimFault("injected callback fault at call %d" % state["n"])
                return x.nrow if not a else a[0]
            return g
        if c == "index":
            return lambda x, i: i
        raise AssertionError(c)

    # -- step -------------------------------------------------------------------

    def execute(self, op):
        self.step += 1
        kind = op["op"]
        self.opcount[kind] = self.opcount.get(kind, 0) + 1
        out = io.StringIO()
        try:
            with contextlib.redirect_stdout(out):
                info = getattr(self, "op_" + kind)(op) or {}
        except MemoryError as e:
            # NumPy raises MemoryError when a StringDType column's arena is corrupt
            self.viol("C01", "wellformed", f"C01.wellformed|{kind}|column-unreadable",
                      f"{kind} left a column that cannot be read: {e!r} op={self.brief(op)}")
            info = {"raised": "MemoryError"}
            for h in list(self.frames):
                try:
                    M.snap_frame(self.frames[h])
                except BaseException:
                    self.dropped.add(h)
                    self.broken.add(h)
        raised = bool(info.get("raised"))
        self.abstract.append((kind, info.get("cls"), (op.get("fault") or {}).get("kind") if
                              isinstance(op.get("fault"), dict) else op.get("fault"), raised))
        entry = {"op": kind, "raised": info.get("raised"), "stdout": out.getvalue()[:200]}
        if "out" in op and op["out"] in self.frames:
            entry["result"] = self.digest_frame(self.frames[op["out"]])
        self.log.append(entry)
        if out.getvalue() and kind != "render":
            self.viol("C20", "stdout", f"C20.stdout|{kind}|unexpected-output", out.getvalue()[:100])

    def digest_frame(self, f):
        try:
            return [[n, str(dict.__getitem__(f, n).dtype), repr(M.col_values(dict.__getitem__(f, n)))]
                    for n in dict.keys(f)]
        except Exception as e:
            return repr(e)

    def run_functional(self, op, call, operands, c09=None, allowed_alias=(), shares=None):
        """
        Common path: call() -> result frame (or other value).  c09(res) may
        return a list of (suffix, detail) reference mismatches.
        """
        kind = op["op"]
        try:
            res = call()
            err = None
        except SimFault as e:
            res, err = None, e
            self.faults["callback_raise"] = self.faults.get("callback_raise", 0) + 1
            self.probes["callback_fault_fired"] += 1
        except Exception as e:
            res, err = None, e
        info = {"raised": type(err).__name__ if err else None}
        if err is None and isinstance(res, self.di.DataFrame):
            if res is not None and any(res is self.frames[h] for h in self.frames) and kind != "group_by":
                self.viol("C06", "alias", f"C06.alias|{kind}|returned-an-operand-object",
                          f"{kind} returned one of the pool objects instead of a new frame")
            else:
                self.check_no_alias(op, res, allowed_alias)
                if c09 is not None:
                    try:
                        bad = c09(res)
                    except Exception as e:
                        bad = [("reference-check-raised", repr(e))]
                    for suffix, detail in bad:
                        self.viol("C09", "reference", f"C09.{kind}|{suffix}", f"{kind}: {detail} op={self.brief(op)}")
                self.register(op["out"], res, bufs=shares(res) if shares else None)
        elif err is not None and c09 is not None and op.get("defined"):
            self.viol("C09", "total", f"C09.{kind}|raises-{type(err).__name__}",
                      f"{kind} raised {err!r} on defined input op={self.brief(op)}")
        self.check_pool(op, changed=set(), raised=err is not None, operands=set(operands))
        return info

    # -- constructors / converters ------------------------------------------------

    def op_new(self, op):
        di = self.di
        cols = op["cols"]
        how = op.get("how", "kwargs")
        lens = set()
        for name, dtype, values in cols:
            lens.add(len(values) if isinstance(values, list) else 1)
        bad = op.get("expect_reject", False)

        def call():
            data = {}
            for name, dtype, values in cols:
                if dtype == "scalar":
                    data[name] = values[6:].encode() if isinstance(values, str) and values.startswith("bytes:") else values
                elif dtype == "pylist":
                    data[name] = list(values)
                else:
                    data[name] = M.build_column(dtype, values)
            if how == "dict":
                return di.DataFrame(data)
            if how == "pairs":
                return di.DataFrame((k, v) for k, v in data.items())
            return di.DataFrame(**data)
        try:
            res, err = call(), None
        except Exception as e:
            res, err = None, e
        if bad:
            self.probes["rejected_length"] += 1
            if err is None:
                self.viol("C01", "reject", "C01.reject|new|length-mismatch-accepted",
                          f"constructor accepted columns of lengths "
                          f"{[len(v) if isinstance(v, list) else 1 for n, d, v in cols]}")
        elif err is not None:
            self.viol("C01", "construct", f"C01.construct|new|raises-{type(err).__name__}",
                      f"constructor raised {err!r} for {self.brief(op)}")
        if err is None:
            # broadcast check
            n = max([len(v) if isinstance(v, list) else 1 for nm, d, v in cols], default=0)
            for name, dtype, values in cols:
                if dtype == "scalar" and n >= 1 and name in res:
                    self.probes["broadcast_scalar"] += 1
                    got = M.col_values(res[name])
                    if isinstance(values, str) and values.startswith("bytes:"):
                        values = values[6:].encode()
                    if len(got) != n or any(g != values for g in got):
                        self.viol("C01", "broadcast", "C01.broadcast|new|scalar-not-broadcast",
                                  f"scalar {values!r} stored as {got!r} for nrow {n}")
            self.register(op["out"], res)
        self.check_pool(op, set(), err is not None, set())
        return {"raised": type(err).__name__ if err else None, "cls": how}

    def op_convert(self, op):
        h = op["t"]
        f = self.frames[h]
        di = self.di
        via = op["via"]

        def call():
            if via == "lod":
                return f.to_list_of_dicts().to_data_frame()
            if via == "pandas":
                return di.DataFrame.from_pandas(f.to_pandas())
            if via == "arrow":
                return di.DataFrame.from_arrow(f.to_arrow())
            if via == "json":
                return di.DataFrame.from_json(f.to_json())
            # readers are "constructors" too (C01): write to the run's scratch file, read back
            import os
            import tempfile
            root = os.environ.get("DSIM_SCRATCH") or tempfile.gettempdir()
            ext = {"csvfile": ".csv", "parquetfile": ".parquet", "npzfile": ".npz",
                   "picklefile": ".pkl.gz", "jsonfile": ".json"}[via]
            path = os.path.join(root, f"e1-{os.getpid()}{ext}")
            try:
                kind = via[:-4]
                getattr(f, "write_" + kind)(path)
                return getattr(di.DataFrame, "read_" + kind)(path)
            finally:
                with contextlib.suppress(OSError):
                    os.unlink(path)
        info = self.run_functional(op, call, [h])
        info["cls"] = via
        return info

    # -- functional ops (C01/C06 only) ----------------------------------------------

    def op_filter(self, op, name="filter"):
        h = op["t"]
        f = self.frames[h]
        if "mask" in op and "kv" in op:
            mask = np.array(op["mask"], bool)
            before = mask.copy()
            kv = {k: self.build_value(v) for k, v in op["kv"].items()}

            def call():
                try:
                    return getattr(f, name)(mask, **kv)
                finally:
                    if not np.array_equal(mask, before):
                        self.viol("C06", "mutate", f"C06.mutate|{name}|argument-mask-changed",
                                  f"{name}(mask, **{op['kv']}) wrote into the caller's mask array")
        elif "mask" in op:
            call = lambda: getattr(f, name)(np.array(op["mask"], bool))
        elif "fn" in op:
            fn = self.frame_callable(op["fn"])
            kv2 = {k: self.build_value(v) for k, v in (op.get("kv") or {}).items()}
            call = lambda: getattr(f, name)(fn, **kv2)
        else:
            kv = {k: self.build_value(v) for k, v in op["kv"].items()}
            call = lambda: getattr(f, name)(**kv)
        info = self.run_functional(op, call, [h])
        if op.get("expect_reject"):
            self.probes["rejected_length"] += 1
            if not info["raised"]:
                self.viol("C01", "reject", f"C01.reject|{name}|mask-length-mismatch-accepted",
                          f"{name} accepted a mask of wrong length")
        return info

    def op_filter_out(self, op):
        return self.op_filter(op, "filter_out")

    def op_slice(self, op, name="slice"):
        h = op["t"]
        f = self.frames[h]
        rows, cols = op.get("rows"), op.get("cols")
        if op.get("as_array"):
            # index vectors handed over as ndarrays are arguments too: they must come back unchanged
            ra = np.array(rows, "int64") if rows is not None else None
            ca = np.array(cols, "int64") if cols is not None else None
            r0 = None if ra is None else ra.copy()
            c0 = None if ca is None else ca.copy()

            def call():
                try:
                    return getattr(f, name)(rows=ra, cols=ca)
                finally:
                    if (ra is not None and not np.array_equal(ra, r0)) or \
                            (ca is not None and not np.array_equal(ca, c0)):
                        self.viol("C06", "mutate", f"C06.mutate|{name}|argument-index-vector-changed",
                                  f"{name}(rows={rows}, cols={cols}) wrote into the caller's index array")
            return self.run_functional(op, call, [h])
        return self.run_functional(op, lambda: getattr(f, name)(rows=rows, cols=cols), [h])

    def op_slice_off(self, op):
        return self.op_slice(op, "slice_off")

    def op_head(self, op):
        h = op["t"]
        f = self.frames[h]
        return self.run_functional(op, lambda: f.head(op["n"]) if op["n"] is not None else f.head(), [h])

    def op_tail(self, op):
        h = op["t"]
        f = self.frames[h]
        return self.run_functional(op, lambda: f.tail(op["n"]) if op["n"] is not None else f.tail(), [h])

    def op_sample(self, op):
        h = op["t"]
        f = self.frames[h]

        def call():
            np.random.seed(op["rseed"])
            return f.sample(op["n"]) if op["n"] is not None else f.sample()
        return self.run_functional(op, call, [h])

    def op_drop_na(self, op):
        h = op["t"]
        f = self.frames[h]
        return self.run_functional(op, lambda: f.drop_na(*op["names"]), [h])

    def op_unique(self, op):
        h = op["t"]
        f = self.frames[h]
        return self.run_functional(op, lambda: f.unique(*op["names"]), [h])

    def op_sort(self, op):
        h = op["t"]
        f = self.frames[h]
        kd = {k: d for k, d in op["key_dirs"]}
        for k in kd:
            if k in f and dict.__getitem__(f, k).dtype.kind == "U":
                self.probes["fixed_width_string_key_sorted"] += 1
        return self.run_functional(op, lambda: f.sort(**kd), [h])

    def op_join(self, op):
        h, o = op["t"], op["other"]
        f, g = self.frames[h], self.frames[o]
        by = [x if isinstance(x, str) else tuple(x) for x in op["by"]]
        return self.run_functional(op, lambda: getattr(f, op["how"])(g, *by), [h, o])

    def op_aggregate(self, op):
        h = op["t"]
        f = self.frames[h]
        di = self.di
        fns = {}
        for name, spec in op["aggs"]:
            if spec.get("helper") == "count":
                fns[name] = di.count()
            elif spec.get("helper"):
                fns[name] = getattr(di, spec["helper"])(spec["col"])
            else:
                fns[name] = self.frame_callable(spec)
        before_group = f._group_colnames

        def call():
            return f.group_by(*op["names"]).aggregate(**fns)
        info = self.run_functional_grouping(op, call, h, op["names"])
        return info

    def run_functional_grouping(self, op, call, h, names):
        # group_by marks the receiver (documented): allow the group mark to change
        self.snaps[h] = (self.snaps[h][0], tuple(names))
        old = self.frames[h]._group_colnames
        info = self.run_functional(op, call, [h])
        return info

    def op_count(self, op):
        h = op["t"]
        f = self.frames[h]
        return self.run_functional(op, lambda: f.count(*op["names"]), [h])

    def op_copy(self, op):
        h = op["t"]
        f = self.frames[h]
        allowed = {(h, n, n) for n in dict.keys(f)}
        # columns shared with h are also shared with everybody h shares with
        for h2 in self.frames:
            for n2, b2 in self.bufs[h2].items():
                for n, b in self.bufs[h].items():
                    if b == b2:
                        allowed.add((h2, n2, n))
        return self.run_functional(op, lambda: f.copy(), [h], allowed_alias=allowed,
                                   shares=lambda res: dict(self.bufs[h]))

    def op_deepcopy(self, op):
        h = op["t"]
        f = self.frames[h]
        return self.run_functional(op, lambda: f.deepcopy(), [h])

    def op_clear(self, op):
        h = op["t"]
        f = self.frames[h]
        return self.run_functional(op, lambda: f.clear(), [h])

    def op_compare(self, op):
        h, o = op["t"], op["other"]
        f, g = self.frames[h], self.frames[o]
        res = [None]

        def call():
            out = f.compare(g, *op["by"])
            res[0] = out
            return out[0] if isinstance(out, tuple) and isinstance(out[0], self.di.DataFrame) else None
        return self.run_functional(op, call, [h, o])

    def op_map(self, op):
        h = op["t"]
        f = self.frames[h]
        fn = self.frame_callable(op["fn"])
        try:
            res, err = f.map(fn), None
        except SimFault as e:
            res, err = None, e
            self.faults["callback_raise"] = self.faults.get("callback_raise", 0) + 1
            self.probes["callback_fault_fired"] += 1
        except Exception as e:
            res, err = None, e
        self.check_pool(op, set(), err is not None, {h})
        return {"raised": type(err).__name__ if err else None}

    def op_split(self, op):
        h = op["t"]
        f = self.frames[h]
        try:
            f.split(*op["names"])
            err = None
        except Exception as e:
            err = e
        self.check_pool(op, set(), err is not None, {h})
        return {"raised": type(err).__name__ if err else None}

    # -- Vector methods on a pool column (C06 covers Vector too) ------------------------

    def op_vec(self, op):
        h = op["t"]
        f = self.frames[h]
        name = op["name"]
        if name not in f:
            return {"raised": "skip"}
        col = dict.__getitem__(f, name)
        m = op["method"]
        args = op.get("args", {})

        def call():
            if m == "concat":
                o = self.frames.get(op.get("other"))
                other = dict.__getitem__(o, op["other_name"]) if o is not None and op.get("other_name") in o else col
                return col.concat(other)
            if m == "equal":
                return col.equal(col)
            if m == "sample":
                np.random.seed(args.get("rseed", 0))
                return col.sample(args.get("n"))
            if m == "map":
                return col.map(lambda x: x)
            if m == "replace_na":
                return col.replace_na(col.na_value if args.get("same") else self.vec_fill(col))
            return getattr(col, m)(**{k: v for k, v in args.items() if k != "rseed"})
        try:
            res, err = call(), None
        except Exception as e:
            res, err = None, e
        if err is None and isinstance(res, np.ndarray):
            if res is col:
                self.viol("C06", "alias", f"C06.alias|Vector.{m}|returned-the-receiver", f"Vector.{m} returned self")
            else:
                hit = None
                for h2 in sorted(self.frames):
                    if h2 in self.broken:
                        continue
                    f2 = self.frames[h2]
                    for n2 in dict.keys(f2):
                        c2 = dict.__getitem__(f2, n2)
                        if np.may_share_memory(res, c2) and np.shares_memory(res, c2):
                            hit = (h2, n2)
                            break
                    if hit:
                        break
                if hit:
                    self.viol("C06", "alias", f"C06.alias|Vector.{m}|result-shares-memory-with-receiver",
                              f"Vector.{m}({args}) on F{h}[{name!r}] ({col.dtype}) returned an array sharing "
                              f"memory with F{hit[0]}[{hit[1]!r}]")
                # the "later in-place edit" on the result must not be observable in the pool
                if res.ndim == 1 and len(res) and res.flags.writeable and res.dtype == col.dtype:
                    try:
                        res[0] = res[-1] if len(res) > 1 else res[0]
                        res[...] = res[::-1].copy()
                    except Exception:
                        pass
        before = len(self.violations)
        self.check_pool(op, set(), err is not None, {h})
        for v in self.violations[before:]:
            if v["property"] == "C06":
                v["sig"] = v["sig"].replace("|vec|", f"|Vector.{m}|")
        return {"raised": type(err).__name__ if err else None, "cls": m}

    def vec_fill(self, col):
        k = col.dtype.kind
        if k == "f":
            return 0.5
        if k == "M":
            return np.datetime64("2001-01-01")
        if k in "TU":
            return "fill"
        return 0

    # -- structural ops with a C09 reference ------------------------------------------

    def tokens(self, h):
        f = self.frames[h]
        return {n: M.snap_column(dict.__getitem__(f, n)) for n in dict.keys(f)}

    def compare_tokens(self, res, expected):
        """expected: list of (name, token) in order; byte-identical columns."""
        bad = []
        got_names = list(dict.keys(res))
        exp_names = [n for n, t in expected]
        if got_names != exp_names:
            bad.append(("names-or-order", f"result columns {got_names!r}, reference {exp_names!r}"))
            return bad
        for n, t in expected:
            if t is None:
                continue
            now = M.snap_column(dict.__getitem__(res, n))
            if now != t:
                bad.append(("untouched-column-changed",
                            f"column {n!r} differs from the operand's column it must equal: "
                            f"{str(now)[:160]} vs {str(t)[:160]}"))
                break
        return bad

    def op_select(self, op):
        h = op["t"]
        f = self.frames[h]
        tok = self.tokens(h)
        names = op["names"]
        op["defined"] = all(n in tok for n in names) and len(set(names)) == len(names)
        c09 = (lambda res: self.compare_tokens(res, [(n, tok[n]) for n in names])) if op["defined"] else None
        return self.run_functional(op, lambda: f.select(*names), [h], c09=c09)

    def op_unselect(self, op):
        h = op["t"]
        f = self.frames[h]
        tok = self.tokens(h)
        names = op["names"]
        op["defined"] = True
        exp = [(n, tok[n]) for n in dict.keys(f) if n not in names]
        return self.run_functional(op, lambda: f.unselect(*names), [h],
                                   c09=lambda res: self.compare_tokens(res, exp))

    def op_rename(self, op):
        h = op["t"]
        f = self.frames[h]
        tok = self.tokens(h)
        to_from = [tuple(x) for x in op["to_from"]]
        ren = {fm: to for to, fm in to_from}
        new_names = [ren.get(n, n) for n in dict.keys(f)]
        op["defined"] = len(set(new_names)) == len(new_names) and len(ren) == len(to_from)
        if set(ren) == set(ren.values()) and len(ren) >= 2:
            self.probes["rename_permutation"] += 1
        exp = [(ren.get(n, n), tok[n]) for n in dict.keys(f)]
        c09 = (lambda res: self.compare_tokens(res, exp)) if op["defined"] else None
        return self.run_functional(op, lambda: f.rename(**dict(to_from)), [h], c09=c09)

    def value_token(self, spec, nrow):
        """Expected logical values of a modify/assignment value, or None if it must be rejected."""
        k = spec["kind"]
        if k == "scalar":
            return [spec["value"]] * nrow if nrow >= 1 else "either"
        if k == "reshaped":
            return None         # never a one-dimensional column vector: must be rejected
        vals = spec["values"]
        if len(vals) == nrow:
            return list(vals)
        if len(vals) == 1 and nrow >= 1:
            return list(vals) * nrow
        return None

    def logical_equal(self, col, values):
        got = M.col_values(col)
        if len(got) != len(values):
            return False
        for g, v in zip(got, values):
            if v is None or (isinstance(v, str) and v == ""):
                if g is not None:
                    return False
            elif isinstance(v, float) and isinstance(g, (int, float)) and not isinstance(g, bool):
                if float(g) != v and not (abs(float(g) - v) <= 1e-6 * max(1.0, abs(v))):   # float32 columns
                    return False
            elif isinstance(g, bytes) and isinstance(v, str):
                if g != v.encode():
                    return False
            elif isinstance(g, str) and isinstance(v, str):
                if g != v:
                    return False
            elif g != v and str(g) != str(v):
                return False
        return True

    def op_modify(self, op):
        h = op["t"]
        f = self.frames[h]
        tok = self.tokens(h)
        nrow = f.nrow
        pairs = op["pairs"]            # [[name, valuespec or {"c":...}], ...]
        kw = {}
        expect_reject = False
        for name, spec in pairs:
            if "c" in spec:
                kw[name] = self.frame_callable(spec)
                if spec["c"] in ("badlen", "group_badlen"):
                    expect_reject = True
            else:
                kw[name] = self.build_value(spec)
                if self.value_token(spec, nrow) is None:
                    expect_reject = True
        if not dict.keys(f):
            # no columns yet: any length defines the row count (a 2-D value is still no column)
            expect_reject = any("c" not in s_ and s_["kind"] == "reshaped" for n_, s_ in pairs)
        if op.get("group") and any(s_.get("c") == "group_badlen" for n_, s_ in pairs) and f.nrow == 0:
            expect_reject = False       # no groups: the callback is never called
        grouped = bool(op.get("group")) or bool(f._group_colnames)     # the group mark is sticky
        op["defined"] = not expect_reject and not grouped and bool(dict.keys(f)) and nrow >= 1 and \
            not any(s.get("c") in ("raise", "raise_at") for n, s in pairs) and \
            not (dict.keys(f).__len__() == 0 and any("c" not in s and s["kind"] == "scalar" for n, s in pairs))
        new_names = [n for n, s in pairs]

        def c09(res):
            bad = []
            got = list(dict.keys(res))
            untouched = [n for n in dict.keys(f) if n not in new_names]
            if [n for n in got if n in untouched] != untouched:
                bad.append(("untouched-order", f"untouched columns {untouched!r} reordered/lost in {got!r}"))
                return bad
            if set(got) != set(untouched) | set(new_names):
                bad.append(("names", f"result columns {got!r}"))
                return bad
            for n in untouched:
                if M.snap_column(dict.__getitem__(res, n)) != tok[n]:
                    bad.append(("untouched-column-changed", f"column {n!r} changed by modify"))
                    return bad
            for n, s in pairs:
                if s.get("c") == "copycol" and s["name"] in tok:
                    # the callable sees the receiver as it was: the new column is that column
                    if M.snap_column(dict.__getitem__(res, n)) != tok[s["name"]]:
                        bad.append(("modified-column-value", f"column {n!r} = lambda x: x[{s['name']!r}] "
                                    f"does not equal the receiver's column {s['name']!r}"))
                        return bad
                    continue
                if "c" in s:
                    continue
                exp = self.value_token(s, nrow)
                if isinstance(exp, list) and not self.logical_equal(dict.__getitem__(res, n), exp):
                    bad.append(("modified-column-value", f"column {n!r} holds "
                                f"{M.col_values(dict.__getitem__(res, n))!r}, expected {exp!r}"))
                    return bad
            return bad

        def call():
            if op.get("group"):
                return f.group_by(*op["group"]).modify(**kw)
            return f.modify(**kw)
        if op.get("group"):
            self.snaps[h] = (self.snaps[h][0], tuple(op["group"]))
        gcheck = None
        if op.get("group") and all(s_.get("c") == "group_frac" for n_, s_ in pairs) and \
                all(gn in f for gn in op["group"]):
            keys = list(zip(*[M.col_values(dict.__getitem__(f, gn)) for gn in op["group"]])) if f.nrow else []
            if all(not isinstance(v, (list, dict)) and v is not None for k in keys for v in k):
                sizes = {}
                for k in keys:
                    sizes[k] = sizes.get(k, 0) + 1
                want = [float(sizes[k]) if sizes[k] == 1 else sizes[k] + 0.5 for k in keys]

                def gcheck(res):
                    for n_, s_ in pairs:
                        got = M.col_values(dict.__getitem__(res, n_))
                        if len(got) != len(want) or any(g_ is None or float(g_) != w for g_, w in zip(got, want)):
                            return [("modified-column-value", f"grouped modify: column {n_!r} holds {got!r}, "
                                     f"the group-wise results are {want!r}")]
                    return []
        info = self.run_functional(op, call, [h], c09=gcheck or (c09 if op["defined"] else None))
        if expect_reject:
            self.probes["rejected_length"] += 1
            if not info["raised"]:
                self.viol("C01", "reject", "C01.reject|modify|length-mismatch-accepted",
                          f"modify accepted a value of wrong length: {self.brief(op)}")
        return info

    def op_cbind(self, op):
        h = op["t"]
        f = self.frames[h]
        others = op["others"]
        toks = {x: self.tokens(x) for x in [h] + others}
        nrow = f.nrow
        exp = []
        bcast = []
        seen = set()
        defined = True
        for x in [h] + others:
            fx = self.frames[x]
            for n in dict.keys(fx):
                if n in seen:
                    continue
                seen.add(n)
                if fx.nrow == nrow or x == h:
                    exp.append((n, toks[x][n]))
                elif fx.nrow == 1 and nrow >= 1:
                    exp.append((n, None))       # broadcast: values checked below
                    bcast.append((n, M.col_values(dict.__getitem__(fx, n))[0]))
                else:
                    defined = False
        if not dict.keys(f) and others:
            defined = False     # receiver without columns: row count undefined
        op["defined"] = defined

        def check(res):
            bad = self.compare_tokens(res, exp)
            for n, v in bcast:
                if not bad and n in res and M.col_values(dict.__getitem__(res, n)) != [v] * nrow and \
                        not self.logical_equal(dict.__getitem__(res, n), [v] * nrow):
                    bad.append(("broadcast-value", f"column {n!r} of a 1-row operand should be {v!r} "
                                f"x {nrow}, got {M.col_values(dict.__getitem__(res, n))!r}"))
            return bad
        c09 = check if defined else None
        return self.run_functional(op, lambda: f.cbind(*[self.frames[x] for x in others]),
                                   [h] + others, c09=c09)

    def op_update(self, op):
        h, o = op["t"], op["other"]
        f, g = self.frames[h], self.frames[o]
        tf, tg = self.tokens(h), self.tokens(o)
        same_rows = f.nrow == g.nrow
        defined = same_rows or (g.nrow == 1 and f.nrow >= 1)
        if not dict.keys(f):
            defined = False
        op["defined"] = defined

        def c09(res):
            bad = []
            got = list(dict.keys(res))
            if res.nrow != f.nrow:
                self.viol("C01", "broadcast", "C01.broadcast|update|row-count-changed",
                          f"update of a {f.nrow}-row frame with a {g.nrow}-row frame gave {res.nrow} rows")
            elif not same_rows:
                for n in tg:
                    v = M.col_values(dict.__getitem__(g, n))[0]
                    if n in res and M.col_values(dict.__getitem__(res, n)) != [v] * f.nrow and \
                            not self.logical_equal(dict.__getitem__(res, n), [v] * f.nrow):
                        self.viol("C01", "broadcast", "C01.broadcast|update|length-one-value-not-broadcast",
                                  f"column {n!r} of the 1-row operand should be {v!r} x {f.nrow}")
                        break
            untouched = [n for n in dict.keys(f) if n not in tg]
            if [n for n in got if n in untouched] != untouched:
                return [("untouched-order", f"untouched columns {untouched!r} reordered/lost in {got!r}")]
            if set(got) != set(dict.keys(f)) | set(tg):
                return [("names", f"result columns {got!r}")]
            for n in untouched:
                if M.snap_column(dict.__getitem__(res, n)) != tf[n]:
                    return [("untouched-column-changed", f"column {n!r} changed by update")]
            if same_rows:
                for n in tg:
                    if M.snap_column(dict.__getitem__(res, n)) != tg[n]:
                        return [("replaced-column-value", f"column {n!r} is not other's column")]
            return bad
        info = self.run_functional(op, lambda: f.update(g), [h, o], c09=c09 if defined else None)
        if dict.keys(f) and dict.keys(g) and g.nrow not in (f.nrow, 1):
            self.probes["rejected_length"] += 1
            if not info["raised"]:
                self.viol("C01", "reject", "C01.reject|update|length-mismatch-accepted",
                          f"update accepted a {g.nrow}-row frame for a {f.nrow}-row frame")
        return info

    def op_rbind(self, op):
        h = op["t"]
        others = op["others"]
        hs = [h] + others
        fs = [self.frames[x] for x in hs]
        vals = [{n: (str(dict.__getitem__(f, n).dtype), M.col_values(dict.__getitem__(f, n)))
                 for n in dict.keys(f)} for f in fs]
        union = list(dict.fromkeys(n for f in fs for n in dict.keys(f)))
        kinds = {}
        defined = True
        for n in union:
            ks = {dict.__getitem__(f, n).dtype.kind for f in fs if n in f}
            if not (len(ks) == 1 or ks <= {"i", "f"}):
                defined = False
            if any(dict.__getitem__(f, n).dtype.kind == "M" for f in fs if n in f):
                units = {str(dict.__getitem__(f, n).dtype) for f in fs if n in f}
                if len(units) > 1:
                    defined = False
        if any(n not in f for f in fs for n in union):
            self.probes["rbind_absent_column"] += 1
        op["defined"] = defined
        nrows = [f.nrow for f in fs]

        def c09(res):
            got = list(dict.keys(res))
            if got != union:
                return [("names-or-order", f"rbind columns {got!r}, reference (first-seen union) {union!r}")]
            if res.nrow != sum(nrows):
                return [("row-count", f"rbind has {res.nrow} rows, operands have {nrows}")]
            for n in union:
                col = dict.__getitem__(res, n)
                got_vals = M.col_values(col)
                pos = 0
                for f, v, k in zip(fs, vals, nrows):
                    part = got_vals[pos:pos + k]
                    if n in v:
                        exp = v[n][1]
                        def eq(a, b):
                            if a is None or b is None:
                                return a is None and b is None
                            if isinstance(a, float) and isinstance(b, float) and a != a and b != b:
                                return True
                            if isinstance(a, (int, float)) and isinstance(b, (int, float)) \
                                    and not isinstance(a, bool) and not isinstance(b, bool):
                                return float(a) == float(b)     # int64 -> float64 promotion
                            return a == b or str(a) == str(b)
                        ok = len(part) == len(exp) and all(eq(a, b) for a, b in zip(part, exp))
                        if not ok:
                            return [("input-rows-not-recoverable",
                                     f"column {n!r} rows {pos}..{pos + k}: {part!r} != operand's {exp!r}")]
                    else:
                        if any(a is not None for a in part):
                            return [("absent-column-not-missing",
                                     f"column {n!r} absent in an operand but rows {pos}..{pos + k} "
                                     f"hold {part!r} ({col.dtype})")]
                    pos += k
            return []
        return self.run_functional(op, lambda: fs[0].rbind(*fs[1:]), hs, c09=c09 if defined else None)

    # -- in-place ops -----------------------------------------------------------------

    def inplace(self, op, call, h, changed, names_after=None, removed_add=(), removed_del=(),
                expect_reject=False):
        kind = op["op"]
        try:
            res, err = call(), None
        except Exception as e:
            res, err = None, e
        if expect_reject:
            self.probes["rejected_length"] += 1
            if err is None:
                self.viol("C01", "reject", f"C01.reject|{kind}|length-mismatch-accepted",
                          f"{kind} accepted a value of wrong length: {self.brief(op)}")
        if err is None:
            if names_after is not None:
                self.names[h] = names_after
            for n in removed_add:
                self.removed[h].add(n)
            for n in removed_del:
                self.removed[h].discard(n)
            self.check_pool(op, changed, False, {h})
        else:
            if not expect_reject:
                self.viol("C01", "inplace", f"C01.inplace|{kind}|raises-{type(err).__name__}",
                          f"in-place {kind} raised {err!r} on defined input: {self.brief(op)}")
            # a rejected in-place edit must leave every frame unchanged
            self.check_pool(op, set(), False, {h})
        return {"raised": type(err).__name__ if err else None, "res": res}

    def op_setitem(self, op):
        h = op["t"]
        f = self.frames[h]
        name = op["name"]
        spec = op["value"]
        value = self.build_value(spec)
        nrow = f.nrow
        has_cols = bool(dict.keys(f))
        exp = self.value_token(spec, nrow) if (has_cols or spec["kind"] == "reshaped") else (
            [spec["value"]] if spec["kind"] == "scalar" else list(spec["values"]))
        expect_reject = exp is None
        either = exp == "either"
        names_after = list(dict.keys(f)) + ([name] if name not in f else [])
        if name in self.removed[h]:
            self.probes["delete_then_reassign"] += 1
        if spec["kind"] == "scalar" and nrow >= 1:
            self.probes["broadcast_scalar"] += 1

        def call():
            if op.get("via") == "attr":
                setattr(f, name, value)
            else:
                f[name] = value
        if either:
            try:
                call()
                ok = True
            except Exception:
                ok = False
            if ok:
                self.names[h] = names_after
                self.removed[h].discard(name)
                self.bufs[h][name] = self.fresh_bufs([name])[name]
            self.check_pool(op, {(h, name)}, not ok, {h})
            return {"raised": None if ok else "either", "cls": "zero-row-scalar"}
        info = self.inplace(op, call, h, {(h, name)}, names_after, removed_del=[name],
                            expect_reject=expect_reject)
        if not info["raised"] and not expect_reject:
            self.bufs[h][name] = self.fresh_bufs([name])[name]
            col = dict.__getitem__(f, name)
            if isinstance(exp, list) and not self.logical_equal(col, exp):
                self.viol("C01", "broadcast", f"C01.broadcast|setitem|stored-value-differs",
                          f"assigned {spec!r} to a frame with {nrow} rows; stored {M.col_values(col)!r}, "
                          f"expected {exp!r}")
        info["cls"] = spec["kind"] + ("-reject" if expect_reject else "")
        return info

    def op_delete(self, op):
        h = op["t"]
        f = self.frames[h]
        name = op["name"]
        present = name in f
        via = op.get("via", "item")
        names_after = [n for n in dict.keys(f) if n != name]

        def call():
            if via == "attr":
                delattr(f, name)
            else:
                del f[name]
        if not present:
            try:
                call()
                self.viol("C01", "access", f"C01.access|delete|deleting-absent-column-succeeded", name)
            except Exception:
                pass
            self.check_pool(op, set(), False, {h})
            return {"raised": "absent", "cls": via}
        if via == "attr" and (name in self.builtin or not name.isidentifier()):
            # attribute deletion of a method-named column: falls under "names that clash"
            pass
        info = self.inplace(op, call, h, {(h, name)}, names_after, removed_add=[name])
        if not info["raised"]:
            self.bufs[h].pop(name, None)
        info["cls"] = via
        return info

    def op_pop(self, op):
        h = op["t"]
        f = self.frames[h]
        name = op["name"]
        present = name in f
        names_after = [n for n in dict.keys(f) if n != name]
        if not present:
            try:
                f.pop(name)
                self.viol("C01", "access", "C01.access|pop|popping-absent-column-succeeded", name)
            except KeyError:
                pass
            except Exception:
                pass
            self.check_pool(op, set(), False, {h})
            return {"raised": "absent"}
        info = self.inplace(op, lambda: f.pop(name), h, {(h, name)}, names_after, removed_add=[name])
        if not info["raised"]:
            self.bufs[h].pop(name, None)
        return info

    def op_popitem(self, op):
        h = op["t"]
        f = self.frames[h]
        names = list(dict.keys(f))
        if not names:
            try:
                f.popitem()
            except Exception:
                pass
            self.check_pool(op, set(), False, {h})
            return {"raised": "empty"}
        name = names[-1]
        info = self.inplace(op, lambda: f.popitem(), h, {(h, name)}, names[:-1], removed_add=[name])
        if not info["raised"]:
            self.bufs[h].pop(name, None)
            res = info.get("res")
            if not (isinstance(res, tuple) and res[0] == name):
                self.viol("C01", "access", "C01.access|popitem|wrong-item", f"popitem returned {res!r}")
        return info

    def op_set_colnames(self, op):
        h = op["t"]
        f = self.frames[h]
        new = op["names"]
        old = list(dict.keys(f))
        tok = self.tokens(h)
        # positional renaming: a shorter list renames the first len(new) columns, the
        # others keep their name and place; duplicates / too long lists are undefined
        full_new = list(new) + old[len(new):] if len(new) <= len(old) else list(new)
        defined = len(new) <= len(old) and len(set(full_new)) == len(full_new)
        short = len(new) < len(old)
        new = full_new if defined else new
        if defined and set(new) == set(old) and new != old:
            self.probes["colnames_permutation"] += 1
        if defined and short:
            self.probes["colnames_shorter_list"] += 1
        if not defined:
            by_obj = {id(dict.__getitem__(f, n)): self.bufs[h].get(n) for n in old}
            keep = [dict.__getitem__(f, n) for n in old]        # keep ids alive
            snap0 = M.snap_frame(f)
            try:
                f.colnames = op["names"]
            except Exception as e:
                # undefined input may be rejected - but then nothing may have been changed
                if M.snap_frame(f) != snap0:
                    self.viol("C09", "reject", "C09.set_colnames|rejected-assignment-changed-the-frame",
                              f"colnames = {op['names']!r} on {old!r} raised {e!r} and left the frame "
                              f"with columns {list(dict.keys(f))!r}")
            # undefined (too short / duplicates): adopt whatever well-formed state results;
            # columns that are still the same objects keep their buffer ids
            self.names[h] = list(dict.keys(f))
            self.removed[h] = set()
            fresh = self.fresh_bufs(self.names[h])
            self.bufs[h] = {n: (by_obj.get(id(dict.__getitem__(f, n))) or fresh[n]) for n in self.names[h]}
            self.maybe.update(b for b in by_obj.values() if b is not None)
            del keep
            self.check_pool(op, {(h, "*")}, True, {h})
            return {"raised": "undefined", "cls": "undefined"}
        gone = [n for n in old if n not in new]

        def call():
            f.colnames = op["names"]
        info = self.inplace(op, call, h, {(h, "*")}, list(new), removed_add=gone, removed_del=new)
        if not info["raised"]:
            bad = self.compare_tokens(f, [(n, tok[o]) for n, o in zip(new, old)])
            for suffix, detail in bad:
                cls = "shorter-list" if short else ("permutation" if set(new) == set(old) else "fresh-names")
                self.viol("C09", "reference", f"C09.set_colnames|{suffix}|{cls}",
                          f"colnames = {new!r} on {old!r}: {detail}")
                self.names[h] = list(dict.keys(f))
            self.bufs[h] = {n: self.bufs[h].get(o) for n, o in zip(new, old)}
            # whether a renamed column is still the buffer an earlier shallow copy holds is
            # not specified: sharing becomes "maybe" (allowed, not demanded)
            self.maybe.update(b for b in self.bufs[h].values() if b is not None)
        else:
            self.viol("C09", "total", f"C09.set_colnames|raises-{info['raised']}",
                      f"colnames = {new!r} on {old!r} raised")
        info["cls"] = "permutation" if set(new) == set(old) else "fresh"
        return info

    def op_group_by(self, op):
        h = op["t"]
        f = self.frames[h]
        try:
            res = f.group_by(*op["names"])
            if res is not f:
                self.viol("C06", "alias", "C06.group_by|not-receiver", "group_by did not return the receiver")
        except Exception:
            pass
        self.snaps[h] = (self.snaps[h][0], tuple(op["names"]))
        self.check_pool(op, set(), False, {h})
        return {}

    def op_elem_write(self, op):
        h = op["t"]
        f = self.frames[h]
        name = op["name"]
        if name not in f or f.nrow == 0:
            return {"raised": "skip"}
        col = dict.__getitem__(f, name)
        i = op["index"] % f.nrow
        v = op["value"]
        if col.dtype.kind == "M":
            v = np.datetime64(v)
        if col.dtype.kind == "m":
            v = np.timedelta64(v, "s")
        buf = self.bufs[h].get(name)
        changed = {(h2, n2) for h2 in self.frames for n2, b in self.bufs[h2].items()
                   if b == buf and b is not None and n2 in self.frames[h2] and h2 not in self.broken}
        changed.add((h, name))
        if len(changed) > 1:
            self.probes["write_through_shallow_copy"] += 1
        if h >= 1:
            self.probes["elem_write_after_functional"] += 1
        try:
            col[i] = v
            err = None
        except Exception as e:
            err = e
        self.check_pool(op, changed, False, {h})
        # a write through a shallow copy must be visible in the sharers (documented)
        if err is None and len(changed) > 1 and buf not in self.maybe:
            mine = M.snap_column(col)
            for h2, n2 in changed:
                if M.snap_column(dict.__getitem__(self.frames[h2], n2)) != mine:
                    self.viol("C06", "copy", "C06.copy|shallow-copy-did-not-share", f"F{h2}[{n2!r}]")
        return {"raised": type(err).__name__ if err else None}

    # -- render observers (C20) -----------------------------------------------------------

    def op_render(self, op):
        di = self.di
        target = op.get("target", "frame")
        how = op["how"]
        kw = {k: op[k] for k in ("max_rows", "max_width", "truncate_width") if op.get(k) is not None}
        glob_before = {k: getattr(di, k) for k in dir(di) if k.startswith(("PRINT_", "DEFAULT_PEEK"))}
        np_before = np.get_printoptions()
        if target == "geojson":
            obj = self.build_geojson(op["geo"])
            snap_before = M.snap_frame(obj)
        elif target == "vector":
            obj = di.Vector(M.build_column(op["dtype"], op["values"]))
            snap_before = M.snap_column(obj)
            kw = {"max_elements": op["max_elements"]} if op.get("max_elements") is not None else {}
        else:
            h = op["t"]
            obj = self.frames[h]
            if not dict.keys(obj):
                self.probes["render_zero_col"] += 1
        out = io.StringIO()
        if op.get("minimal_stdout") and how != "print_":
            class MinimalOut:
                def write(self_, data):
                    return len(data)
            out = MinimalOut()
        try:
            with contextlib.redirect_stdout(out):
                if how == "str":
                    text = str(obj)
                elif how == "repr":
                    text = repr(obj)
                elif how == "to_string":
                    text = obj.to_string(**kw)
                else:
                    obj.print_(**kw) if target != "vector" else print(obj.to_string(**kw))
                    text = out.getvalue()[:-1]
            err = None
        except Exception as e:
            text, err = None, e
        tname = {"frame": "DataFrame", "geojson": "GeoJSON", "vector": "Vector"}[target]
        if err is not None:
            self.viol("C20", "total", f"C20.raise|{tname}.{how}|{type(err).__name__}",
                      f"{tname}.{how}({kw}) raised {err!r}; op={self.brief(op)}")
        glob_after = {k: getattr(di, k) for k in glob_before}
        if glob_after != glob_before or repr(np.get_printoptions()) != repr(np_before):
            self.viol("C20", "sideeffect", f"C20.sideeffect|{tname}.{how}|settings-changed", "")
        if target == "geojson":
            if M.snap_frame(obj) != snap_before:
                self.viol("C20", "sideeffect", f"C20.sideeffect|GeoJSON.{how}|object-changed", "")
        elif target == "vector":
            if M.snap_column(obj) != snap_before:
                self.viol("C20", "sideeffect", f"C20.sideeffect|Vector.{how}|object-changed", "")
            if err is None and (not isinstance(text, str) or str(obj.dtype_label) not in text):
                self.viol("C20", "structure", f"C20.structure|Vector.{how}|dtype-label-missing", repr(text)[:100])
        if err is None and target in ("frame", "geojson"):
            if any(ord(ch) > 0x2e80 for n in dict.keys(obj) for ch in n) or "日本" in (text or ""):
                self.probes["render_wide_unicode"] += 1
            mr = kw.get("max_rows") if how in ("to_string", "print_") else None
            for suffix, detail in M.check_render(di, obj, text, mr, f"{tname}.{how}({kw})",
                                                 is_geo=target == "geojson"):
                self.viol("C20", "structure", f"C20.structure|{tname}.{how}|{suffix}", detail)
        # pool unchanged (side-effect freedom) - checked by the whole-pool snapshot comparison
        before = len(self.violations)
        self.check_pool(op, set(), False, set())
        for v in self.violations[before:]:
            if v["property"] == "C06":
                v["property"] = "C20"
                v["sig"] = "C20.sideeffect|" + v["sig"]
        return {"raised": type(err).__name__ if err else None, "cls": target + "." + how}

    def build_geojson(self, geo):
        di = self.di
        cols = {}
        for name, dtype, values in geo["cols"]:
            cols[name] = M.build_column(dtype, values)
        cols["geometry"] = M.build_column("object", geo["geometry"])
        data = di.GeoJSON(**cols)
        if geo.get("group"):
            data.group_by(*geo["group"])      # a grouped object is reached through a history
        return data


# ---------------------------------------------------------------------------
# Generation

class Gen:

    def __init__(self, rng, prop, world):
        self.rng = rng
        self.prop = prop
        self.w = world
        r = rng
        self.nops = r.choice([5, 8, 12, 20, 30, 40])
        self.max_rows = r.choice([1, 2, 3, 5, 8, 12])
        self.na_rate = r.choice([0, 0.2, 0.5, 1.0])
        self.dtypes = r.sample(M.DTYPES, r.choice([2, 4, 8]))
        self.fault_rate = r.choice([0, 0, 0.1, 0.25])
        self.name_pool = r.sample(NAMES, r.choice([4, 6, 10, len(NAMES)]))
        groups = {
            "rows": ["filter", "filter_out", "slice", "slice_off", "head", "tail", "sample",
                     "drop_na", "unique", "sort"],
            "struct": ["select", "unselect", "rename", "modify", "cbind", "rbind", "update"],
            "rel": ["join", "aggregate", "count", "split", "map", "compare"],
            "copy": ["copy", "deepcopy", "clear", "convert"],
            "vector": ["vec"],
            "inplace": ["setitem", "setitem", "delete", "pop", "popitem", "set_colnames",
                        "group_by", "elem_write", "elem_write"],
            "render": ["render"],
        }
        weights = {"rows": 3, "struct": 3, "rel": 1.5, "copy": 1.5, "inplace": 4, "render": 1,
                   "vector": 0.5}
        if prop == "C01":
            weights.update(inplace=6, struct=3, rows=2)
        elif prop == "C06":
            weights.update(rows=5, struct=4, rel=3, copy=3, inplace=4, vector=5)
        elif prop == "C09":
            weights.update(struct=9, inplace=4, rows=1, rel=0.5)
        elif prop == "C20":
            weights.update(render=9, inplace=3, struct=2)
        enabled = [g for g in groups if r.random() < 0.8]
        must = {"C01": ["inplace"], "C06": ["rows", "inplace"], "C09": ["struct", "inplace"],
                "C20": ["render"]}[prop]
        for g in must:
            if g not in enabled:
                enabled.append(g)
        self.table = [(n, weights[g] / len(groups[g])) for g in enabled for n in groups[g]]
        self.enabled = enabled
        self.columns_cfg = r.choice([20, 40, 80, 200])

    def config(self):
        return {"nops": self.nops, "max_rows": self.max_rows, "na_rate": self.na_rate,
                "dtypes": self.dtypes, "fault_rate": self.fault_rate, "names": self.name_pool,
                "enabled": self.enabled}

    # -- helpers ---------------------------------------------------------------

    def frame(self, h):
        return self.w.frames[h]

    def cols_of(self, h):
        return list(dict.keys(self.frame(h)))

    def pick(self, nonempty=False):
        w = self.w
        hs = w.live()
        if not hs:
            return None
        r = self.rng
        if nonempty:
            ne = [h for h in hs if dict.keys(w.frames[h]) and w.frames[h].nrow > 0]
            if ne and r.random() < 0.85:
                hs = ne
        if r.random() < 0.5:
            return hs[-1 - min(len(hs) - 1, int(r.random() * 3))]
        return r.choice(hs)

    def new_name(self, h=None, fresh=False):
        r = self.rng
        if fresh and h is not None:
            c = [n for n in self.name_pool if n not in self.cols_of(h)]
            if c:
                return r.choice(c)
        return r.choice(self.name_pool)

    def literal_column(self, n, dtype=None):
        r = self.rng
        dtype = dtype or r.choice(self.dtypes)
        return dtype, M.gen_values(r, dtype, n, self.na_rate)

    def value_spec(self, nrow, dtype=None, allow_bad=True):
        r = self.rng
        dtype = dtype or r.choice(self.dtypes)
        x = r.random()
        if x < 0.25:
            plain_scalar = dtype not in ("fixed", "object", "int32", "float32", "bytes", "datetime_s", "timedelta", "uint8")
            v = M.gen_values(r, dtype if plain_scalar else "int", 1, 0)[0]
            d = dtype if plain_scalar else "int"
            if d == "datetime":
                d = "date"
                v = r.choice(M.DATES)
            return {"kind": "scalar", "dtype": d, "value": v}
        if allow_bad and nrow >= 2 and r.random() < self.fault_rate / 2:
            dt, vals = self.literal_column(nrow, dtype)
            return {"kind": "reshaped", "dtype": dt, "values": vals, "shape": r.choice(["col", "row"])}
        if x < 0.35:
            n = 1
        elif allow_bad and x < 0.35 + self.fault_rate:
            n = r.choice([k for k in (nrow + 1, nrow + 3, max(0, nrow - 1), 2, 0) if k not in (nrow, 1)] or [nrow + 1])
        else:
            n = nrow
        dt, vals = self.literal_column(n, dtype)
        return {"kind": "vector", "dtype": dt, "values": vals}

    def elem_value(self, col):
        r = self.rng
        k = col.dtype.kind
        if k == "b":
            return r.random() < 0.5
        if k == "i":
            return r.choice([0, -9, 99])
        if k == "f":
            return r.choice([0.25, -9.5, 99.0])
        if k in "TU":
            return r.choice(["q", "", "zz"])
        if k == "M":
            return r.choice(M.DATES)
        if k == "m":
            return r.choice([7, 120])
        if k == "S":
            return r.choice([b"q", b"zz"])
        return r.choice([5, "w", None])

    # -- ops ---------------------------------------------------------------------

    def next_op(self):
        w = self.w
        r = self.rng
        live = w.live()
        if len(live) >= 8:
            return {"op": "drop", "t": r.choice(live)}
        if not live or (len(live) < 2 and r.random() < 0.5) or r.random() < 0.07:
            return self.g_new()
        names = [n for n, wt in self.table]
        wts = [wt for n, wt in self.table]
        return getattr(self, "g_" + r.choices(names, wts)[0])()

    def g_new(self):
        r = self.rng
        n = r.choice([0, 1, 1, 2, 3, self.max_rows])
        k = r.choice([0, 1, 2, 3, 4, 6])
        names = r.sample(self.name_pool, min(k, len(self.name_pool)))
        cols = []
        for nm in names:
            dt, vals = self.literal_column(n)
            cols.append([nm, dt, vals])
        op = {"op": "new", "out": self.w.new_handle(), "cols": cols,
              "how": r.choice(["kwargs", "kwargs", "dict", "pairs"])}
        x = r.random()
        if cols and n >= 1 and x < 0.2:
            cols.append([self.new_name(), "scalar", r.choice([1, 2.5, "s", True, "bytes:abcdef"])])
            op["cols"] = [c for i, c in enumerate(cols) if c[0] not in [d[0] for d in cols[:i]]]
        elif cols and x < 0.2 + self.fault_rate and n not in (1,):
            bad_n = r.choice([k for k in (n + 1, n + 2, 0) if k not in (n, 1)])
            if not (n == 0 and bad_n == 1):
                dt, vals = self.literal_column(bad_n)
                name = self.new_name()
                if name not in [c[0] for c in cols] and max(n, bad_n) != 1 and min(n, bad_n) != 1:
                    cols.append([name, dt, vals])
                    op["expect_reject"] = True
        elif cols and n >= 1 and x < 0.35:
            cols.append(["pl", "pylist", [r.choice([1, 2, None]) for _ in range(n)]])
        return op

    def base(self, kind, nonempty=True, out=True):
        op = {"op": kind, "t": self.pick(nonempty)}
        if out:
            op["out"] = self.w.new_handle()
        return op

    def some_names(self, h, kmax=3, allow_unknown=True):
        r = self.rng
        cols = self.cols_of(h)
        if not cols or (allow_unknown and r.random() < self.fault_rate / 2):
            return [r.choice(self.name_pool)]
        return r.sample(cols, min(len(cols), r.randint(1, kmax)))

    def g_filter(self, kind="filter"):
        op = self.base(kind)
        r = self.rng
        f = self.frame(op["t"])
        n = f.nrow
        x = r.random()
        if x < 0.45:
            op["mask"] = [r.random() < 0.5 for _ in range(n)]
            if r.random() < self.fault_rate:
                op["mask"] = op["mask"] + [True, False]
                op["expect_reject"] = True
        elif x < 0.7:
            if r.random() < self.fault_rate:
                op["fn"] = {"c": r.choice(["raise", "badlen"])}
                op["fault"] = "callback_" + op["fn"]["c"]
                if op["fn"]["c"] == "badlen":
                    op["expect_reject"] = True
            else:
                op["fn"] = {"c": "mask_lit", "mask": [r.random() < 0.5 for _ in range(n)]}
        else:
            cols = self.cols_of(op["t"])
            if not cols:
                op["mask"] = []
            else:
                name = r.choice(cols)
                col = dict.__getitem__(f, name)
                vals = M.col_values(col)
                v = r.choice(vals) if vals and r.random() < 0.7 else 1
                if isinstance(v, (list, dict, bytes)) or v is None or col.dtype.kind in "MmS":
                    op["mask"] = [r.random() < 0.5 for _ in range(n)]
                else:
                    op["kv"] = {name: {"kind": "scalar", "value": v}}
                    y = r.random()
                    bools = [c for c in cols if dict.__getitem__(f, c).dtype.kind == "b"]
                    if y < 0.2:
                        op["mask"] = [r.random() < 0.5 for _ in range(n)]        # rows AND col=value
                    elif y < 0.35 and bools:
                        op["fn"] = {"c": "boolcol", "name": r.choice(bools)}
        return op

    def g_filter_out(self):
        return self.g_filter("filter_out")

    def g_slice(self, kind="slice"):
        op = self.base(kind)
        r = self.rng
        f = self.frame(op["t"])
        if r.random() < 0.8 and f.nrow:
            op["rows"] = [r.randrange(f.nrow) for _ in range(r.choice([0, 1, 2, 3]))]
            if r.random() < 0.3:
                op["rows"] = [x - f.nrow if r.random() < 0.5 else x for x in op["rows"]]    # negative indices
        if r.random() < 0.4:
            op["as_array"] = True
        if r.random() < 0.4 and f.ncol:
            op["cols"] = sorted(set(r.randrange(f.ncol) for _ in range(r.choice([1, 2]))))
        return op

    def g_slice_off(self):
        return self.g_slice("slice_off")

    def g_head(self, kind="head"):
        op = self.base(kind, nonempty=False)
        n = self.frame(op["t"]).nrow
        op["n"] = self.rng.choice([0, 1, n, n + 2, None, max(0, n - 1)])
        return op

    def g_tail(self):
        return self.g_head("tail")

    def g_sample(self):
        op = self.g_head("sample")
        op["rseed"] = self.rng.randrange(10 ** 6)
        return op

    def g_drop_na(self):
        op = self.base("drop_na")
        op["names"] = self.some_names(op["t"])
        return op

    def g_unique(self):
        op = self.base("unique")
        op["names"] = self.some_names(op["t"]) if self.rng.random() < 0.8 else []
        return op

    def g_sort(self):
        op = self.base("sort")
        r = self.rng
        names = self.some_names(op["t"])
        op["key_dirs"] = [[n, r.choice([1, -1]) if r.random() > self.fault_rate / 3 else 0] for n in names]
        return op

    def g_select(self):
        op = self.base("select")
        r = self.rng
        cols = self.cols_of(op["t"])
        k = r.randint(0, min(4, len(cols)))
        op["names"] = r.sample(cols, k)
        if r.random() < self.fault_rate / 2:
            op["names"].append("zz9")
        return op

    def g_unselect(self):
        op = self.base("unselect")
        op["names"] = self.some_names(op["t"])
        return op

    def g_rename(self):
        op = self.base("rename")
        r = self.rng
        cols = self.cols_of(op["t"])
        ident = [c for c in cols if c.isidentifier()]
        if len(ident) >= 2 and r.random() < 0.4:
            k = r.choice([2, 2, 3]) if len(ident) >= 3 else 2
            sub = r.sample(ident, k)
            rot = sub[1:] + sub[:1]
            op["to_from"] = [[to, fm] for to, fm in zip(rot, sub)]     # permutation of existing names
        elif cols:
            fresh = [n for n in ["r1", "r2", "r3", "q"] if n not in cols]
            k = min(len(fresh), len(cols), r.choice([1, 1, 2]))
            op["to_from"] = [[to, fm] for to, fm in zip(fresh[:k], r.sample(cols, k))]
        else:
            op["to_from"] = []
        return op

    def g_modify(self):
        op = self.base("modify")
        r = self.rng
        h = op["t"]
        f = self.frame(h)
        pairs = []
        for _ in range(r.choice([1, 1, 2])):
            name = self.new_name(h, fresh=r.random() < 0.5)
            if not name.isidentifier() and False:
                continue
            x = r.random()
            if x < 0.3:
                c = r.choice(["nrow_range", "const", "copycol"])
                spec = {"c": c}
                if c == "const":
                    spec["v"] = r.choice([1, 2.5, "k"])
                if c == "copycol":
                    cols = self.cols_of(h)
                    if not cols:
                        spec = {"c": "nrow_range"}
                    else:
                        spec["name"] = r.choice(cols)
                if r.random() < self.fault_rate:
                    spec = {"c": r.choice(["raise", "badlen"])}
                    op["fault"] = "callback_" + spec["c"]
            else:
                spec = self.value_spec(f.nrow)
            if name not in [p[0] for p in pairs]:
                pairs.append([name, spec])
        op["pairs"] = pairs
        cols = self.cols_of(h)
        if len(cols) >= 2 and r.random() < 0.15:
            a, b = r.sample(cols, 2)
            op["pairs"] = [[a, {"c": "copycol", "name": b}], [b, {"c": "copycol", "name": a}]]   # swap
            op.pop("fault", None)
        if r.random() < 0.15 and cols:
            op["group"] = [r.choice(cols)]
            kinds = ["nrow", "group_vec", "mutate", "group_frac", "group_frac"] + \
                (["group_badlen"] if r.random() < self.fault_rate * 2 else [])
            op["pairs"] = [[n, {"c": r.choice(kinds)}] for n, s in op["pairs"]]
        return op

    def g_cbind(self):
        op = self.base("cbind")
        r = self.rng
        op["others"] = [self.pick() for _ in range(r.choice([1, 1, 2]))]
        return op

    def g_update(self):
        op = self.base("update")
        op["other"] = self.pick()
        return op

    def g_rbind(self):
        op = self.base("rbind", nonempty=False)
        r = self.rng
        op["others"] = [self.pick() for _ in range(r.choice([1, 1, 2]))]
        return op

    def g_join(self):
        op = self.base("join")
        r = self.rng
        op["other"] = self.pick(nonempty=True)
        op["how"] = r.choice(["left_join", "inner_join", "semi_join", "anti_join", "full_join"])
        a, b = self.cols_of(op["t"]), self.cols_of(op["other"])
        both = [n for n in a if n in b]
        if both and r.random() < 0.85:
            op["by"] = r.sample(both, min(len(both), r.choice([1, 1, 2])))
        elif a and b:
            op["by"] = [[r.choice(a), r.choice(b)]]
        else:
            op["by"] = ["a"]
        return op

    def g_compare(self):
        op = self.base("compare")
        op["other"] = self.pick(nonempty=True)
        a, b = self.cols_of(op["t"]), self.cols_of(op["other"])
        both = [n for n in a if n in b]
        op["by"] = [self.rng.choice(both)] if both else ["a"]
        return op

    def g_aggregate(self):
        op = self.base("aggregate")
        r = self.rng
        h = op["t"]
        op["names"] = self.some_names(h, 2)
        aggs = [["n", {"helper": "count"}]]
        if r.random() < 0.5:
            aggs.append(["m", {"c": r.choice(["nrow", "nrow", "mutate"])}])
        if r.random() < self.fault_rate:
            aggs.append(["e", {"c": "raise_at", "k": r.choice([1, 2])}])
            op["fault"] = "callback_raise"
        num = [n for n in self.cols_of(h) if dict.__getitem__(self.frame(h), n).dtype.kind in "if"]
        if num and r.random() < 0.4:
            aggs.append(["s", {"helper": r.choice(["sum", "max", "first", "mean"]), "col": r.choice(num)}])
        op["aggs"] = aggs
        return op

    def g_count(self):
        op = self.base("count")
        op["names"] = self.some_names(op["t"], 2)
        return op

    def g_split(self):
        op = self.base("split", out=False)
        op["names"] = self.some_names(op["t"], 2)
        return op

    def g_map(self):
        op = self.base("map", out=False)
        if self.rng.random() < self.fault_rate:
            op["fn"] = {"c": "raise_at", "k": self.rng.choice([1, 2, 3])}
            op["fault"] = "callback_raise"
        else:
            op["fn"] = {"c": "index"}
        return op

    def g_copy(self):
        return self.base("copy", nonempty=False)

    def g_deepcopy(self):
        return self.base("deepcopy", nonempty=False)

    def g_clear(self):
        return self.base("clear", nonempty=False)

    def g_convert(self):
        op = self.base("convert")
        op["via"] = self.rng.choice(["lod", "pandas", "arrow", "json", "csvfile", "parquetfile",
                                     "npzfile", "picklefile", "jsonfile"])
        return op

    def g_setitem(self):
        op = self.base("setitem", nonempty=False, out=False)
        r = self.rng
        h = op["t"]
        f = self.frame(h)
        gone = sorted(self.w.removed[h])
        if gone and r.random() < 0.4:
            op["name"] = r.choice(gone)             # delete-then-reassign
        else:
            op["name"] = self.new_name(h, fresh=r.random() < 0.6)
        op["value"] = self.value_spec(f.nrow if dict.keys(f) else r.choice([0, 1, 3]))
        if op["name"].isidentifier() and op["name"] not in self.w.builtin and r.random() < 0.4:
            op["via"] = "attr"
        return op

    def g_delete(self):
        op = self.base("delete", nonempty=False, out=False)
        r = self.rng
        cols = self.cols_of(op["t"])
        op["name"] = r.choice(cols) if cols and r.random() < 0.92 else "zz9"
        if op["name"].isidentifier() and op["name"] not in self.w.builtin and r.random() < 0.5:
            op["via"] = "attr"
        return op

    def g_pop(self):
        op = self.g_delete()
        op["op"] = "pop"
        op.pop("via", None)
        return op

    def g_popitem(self):
        return self.base("popitem", nonempty=False, out=False)

    def g_set_colnames(self):
        op = self.base("set_colnames", nonempty=True, out=False)
        r = self.rng
        cols = self.cols_of(op["t"])
        x = r.random()
        if len(cols) >= 2 and x < 0.45:
            new = list(cols)
            while new == cols:
                r.shuffle(new)
            op["names"] = new                       # permutation of existing names
        elif x < 0.9:
            pool = [n for n in self.name_pool + ["n1", "n2", "n3", "n4", "n5", "n6", "n7", "n8"]]
            keep = [c if r.random() < 0.4 else None for c in cols]
            used = set(c for c in keep if c)
            new = []
            for c, k in zip(cols, keep):
                if k:
                    new.append(k)
                else:
                    cand = [n for n in pool if n not in used and n not in cols]
                    n = r.choice(cand) if cand else c
                    used.add(n)
                    new.append(n)
            op["names"] = new
        elif r.random() < 0.25:
            op["names"] = ["t%d" % i for i in range(len(cols) + r.choice([1, 2]))]     # too long
        else:
            k = r.randint(0, max(0, len(cols) - 1))
            fresh = [n for n in ["s1", "s2", "s3", "s4", "s5", "s6", "s7", "s8"] if n not in cols]
            op["names"] = fresh[:k] if r.random() < 0.8 else cols[:k]      # shorter list
        return op

    def g_group_by(self):
        op = self.base("group_by", out=False)
        op["names"] = self.some_names(op["t"], 2, allow_unknown=False)
        return op

    def g_elem_write(self):
        op = self.base("elem_write", nonempty=True, out=False)
        r = self.rng
        h = op["t"]
        cols = self.cols_of(h)
        if not cols:
            return self.g_setitem()
        op["name"] = r.choice(cols)
        op["index"] = r.randrange(12)
        op["value"] = self.elem_value(dict.__getitem__(self.frame(h), op["name"]))
        return op

    def g_vec(self):
        op = self.base("vec", nonempty=True, out=False)
        r = self.rng
        h = op["t"]
        cols = self.cols_of(h)
        if not cols:
            return self.g_setitem()
        op["name"] = r.choice(cols)
        m = r.choice(["as_boolean", "as_float", "as_integer", "as_object", "as_string", "as_date",
                      "as_datetime", "as_bytes", "concat", "drop_na", "head", "tail", "sample", "sort",
                      "rank", "unique", "replace_na", "map", "range", "tolist", "to_strings", "equal",
                      "is_na", "copy"])
        op["method"] = m
        n = self.frame(h).nrow
        if m in ("head", "tail"):
            op["args"] = {"n": r.choice([0, 1, n, n + 2, None])}
        elif m == "sample":
            op["args"] = {"n": r.choice([0, 1, n, None]), "rseed": r.randrange(10 ** 6)}
        elif m == "sort":
            op["args"] = {"dir": r.choice([1, -1])}
        elif m == "rank":
            op["args"] = {"method": r.choice(["min", "max", "ordinal"])}
        elif m == "replace_na":
            op["args"] = {"same": r.random() < 0.3}
        elif m == "concat":
            op["other"] = self.pick()
            oc = self.cols_of(op["other"])
            op["other_name"] = r.choice(oc) if oc else None
        return op

    def g_render(self):
        r = self.rng
        x = r.random()
        op = {"op": "render", "how": r.choice(["str", "repr", "to_string", "to_string", "print_"])}
        if r.random() < 0.15:
            op["minimal_stdout"] = True      # the application replaced sys.stdout by a bare writer
        if x < 0.62 and self.w.live():
            op["target"] = "frame"
            op["t"] = self.pick(nonempty=False)
            n = self.frame(op["t"]).nrow
            op["max_rows"] = r.choice([None, None, 1, 2, n, n + 1, max(1, n - 1)])
            op["max_width"] = r.choice([None, None, 20, 40, 80, 200])
            op["truncate_width"] = r.choice([None, None, 2, 5, 10, 36])
        elif x < 0.8:
            op["target"] = "vector"
            n = r.choice([0, 1, 3, 12, 30])
            dt, vals = self.literal_column(n)
            op["dtype"], op["values"] = dt, vals
            op["max_elements"] = r.choice([None, 1, 5, n, n + 1])
        else:
            op["target"] = "geojson"
            n = r.choice([0, 1, 2, 4])
            cols = []
            for nm in r.sample(["name", "pop", "ünï", "a b"], r.choice([0, 1, 2])):
                dt, vals = self.literal_column(n, r.choice(["str", "int", "float", "bool"]))
                cols.append([nm, dt, vals])
            geoms = [r.choice([None, {"type": "Point", "coordinates": [1, 2]},
                               {"type": "MultiPolygon", "coordinates": [[[[0, 0], [1, 1], [0, 1], [0, 0]]]]}])
                     for _ in range(n)]
            op["geo"] = {"cols": cols, "geometry": geoms}
            if cols and r.random() < 0.3:
                op["geo"]["group"] = [cols[0][0]]
            op["max_rows"] = r.choice([None, 1, n + 1])
            op["max_width"] = r.choice([None, 40])
            if op["how"] == "print_" and r.random() < 0.5:
                op["truncate_width"] = r.choice([5, 36])
        return op


# ---------------------------------------------------------------------------

def _valid(world, op):
    for key in ("t", "other"):
        if key in op and op[key] is not None and (op[key] not in world.frames or op[key] in world.dropped):
            return False
    for x in op.get("others", []):
        if x not in world.frames or x in world.dropped:
            return False
    return True


def _run(prop, rng=None, trace=None):
    import os
    import dataiter as di
    world = World(prop)
    saved = {k: getattr(di, k) for k in dir(di) if k.startswith(("PRINT_", "DEFAULT_PEEK"))}
    saved_cols = os.environ.get("COLUMNS")
    ops_done = []
    if trace is None:
        gen = Gen(rng, prop, world)
        config = gen.config()
        config["COLUMNS"] = gen.columns_cfg
        config["PRINT_MAX_ROWS"] = rng.choice([100, 100, 3, 10])
        config["PRINT_TRUNCATE_WIDTH"] = rng.choice([36, 36, 8, 3])
        config["PRINT_FLOAT_PRECISION"] = rng.choice([6, 6, 2, 10])
        config["PRINT_THOUSAND_SEPARATOR"] = rng.choice(["", "", ",", " "])
        config["DEFAULT_PEEK_ROWS"] = rng.choice([10, 10, 2])
        n = gen.nops
    else:
        gen = None
        config = trace["config"]
        n = len(trace["ops"])
    os.environ["COLUMNS"] = str(config.get("COLUMNS", 100))
    for k in ("PRINT_MAX_ROWS", "PRINT_TRUNCATE_WIDTH", "PRINT_FLOAT_PRECISION",
              "PRINT_THOUSAND_SEPARATOR", "DEFAULT_PEEK_ROWS"):
        if k in config:
            setattr(di, k, config[k])
    try:
        for i in range(n):
            op = gen.next_op() if gen is not None else copy.deepcopy(trace["ops"][i])
            if op["op"] == "drop":
                if op["t"] in world.frames:
                    world.dropped.add(op["t"])
                ops_done.append(op)
                continue
            if not _valid(world, op):
                continue
            if op.get("out") is not None:
                world.next_handle = max(world.next_handle, op["out"] + 1)
            rec = copy.deepcopy(op)
            world.execute(op)
            ops_done.append(rec)
    finally:
        for k, v in saved.items():
            setattr(di, k, v)
        if saved_cols is None:
            os.environ.pop("COLUMNS", None)
        else:
            os.environ["COLUMNS"] = saved_cols
    executed = [o for o in ops_done if o["op"] != "drop"]
    nontrivial = len(executed) >= 3 and any(
        o["op"] in INPLACE or o.get("fault") or o.get("expect_reject") for o in executed)
    return kernel.RunResult(
        violations=world.violations,
        steps=len(executed),
        faults=world.faults,
        probes=world.probes,
        opcount=world.opcount,
        digest=kernel.digest(world.log),
        abstract=kernel.digest(world.abstract),
        nontrivial=nontrivial,
        trace={"config": config, "ops": ops_done},
    )


def run_seed(seed, prop, tier):
    return _run(prop, rng=random.Random(seed))


def replay(trace, prop):
    return _run(prop, trace=trace)
