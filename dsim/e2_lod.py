# -*- coding: utf-8 -*-
"""
E2 - ListOfDicts heap-model machine (DESIGN.md section 4, E2).
Serves C15, C16, C17 and the ListOfDicts part of C20.

World: a pool of live ListOfDicts.  Reference model: a parallel universe of
plain Python lists of plain dicts on which every operation is written as the
obvious Python code; real item objects and model dict objects are kept in a
bijection, so "hands on the same items" is checked by identity and "no write
nobody asked for" by comparing every live item with its model twin after
every step (whole-heap check).  On top of that a derivation graph between
list handles gives the expected obsolescence state (C17).
"""

import contextlib
import copy
import io
import itertools
import random

from dsim import kernel
from dsim.kernel import Violation

NAME = "e2"
REWIRE = True
CHUNK = 50
# runs per tier (quick, thorough)
RUNS = {"C15": (40000, 2000000), "C16": (40000, 2000000), "C17": (40000, 2000000), "C20": (20000, 400000)}
RULE = ("one run = one seeded history of 6..40 public ListOfDicts operations (constructors, "
        "filters, sort, unique, editing methods, list algebra, joins, aggregate, copies, "
        "render observers, callback faults) on a pool of <=8 lists sharing item objects; "
        "a run is non-trivial iff it has >=3 executed ops of which >=1 is an editing, join "
        "or fault op; distinct = distinct sequence of (op kind, fault kind, raised?) tuples")
STUBS = [
    "user callbacks (simulator-provided predicates / value functions built from literal specs, "
    "with a seeded 'raise at k-th invocation' fault)",
    "random.seed() pinned immediately before sample()",
    "stdout captured per step (obsolescence warning is part of the observed history)",
    "terminal width via COLUMNS env",
]
ASSUMPTIONS = {
    "C15": ["methods documented as returning 'shallow copies' hand on the same dict objects "
            "(class docstring); identity is therefore part of the reference semantics",
            "rename/select may either allocate new items or edit in place (both accepted)",
            "operations whose reference semantics are undefined (missing sort/join key, mixed-type "
            "comparison) are only required not to modify any item"],
    "C16": ["full_join is checked at property level (left part == left_join semantics in order, "
            "every right item contained, no merge of unequal keys) only for operands whose non-key "
            "names are disjoint"],
    "C17": ["a 'use' is a public method call on the list or an operation that returns a new list "
            "handing on its items (slicing, +, *); len(), iteration and integer indexing may or "
            "may not warn",
            "links created by methods that hand on zero or freshly allocated items (clear, aggregate, "
            "map) are 'weak': ancestors reachable only through them may be reported obsolete or not",
            "after an injected callback fault inside an editing method the obsolescence state of the "
            "receiver and its ancestors is unconstrained until the next successful editing method"],
    "C20": ["ListOfDicts rendering: totality and absence of side effects only (the property makes no "
            "structural claim for lists)"],
}

KEYS_INT = ["a", "b", "k", "g"]
KEYS_STR = ["s"]
KEYS_TUP = ["t"]
KEYS_ALL = KEYS_INT + KEYS_STR + ["n"]
FRESH = ["r1", "r2", "r3"]
WARNING = "Warning: A successor has modified the shared dicts"

EDITING = {"modify", "modify_if", "rename", "select", "unselect", "fill_missing_keys",
           "inner_join", "left_join"}
JOINS = {"left_join", "inner_join", "semi_join", "anti_join", "full_join"}


class SimFault(Exception):
    pass


# ---------------------------------------------------------------------------
# Callables from literal specs (used identically on real items and model dicts)

class Counter:
    def __init__(self, raise_at, hook=None):
        self.n = 0
        self.raise_at = raise_at
        self.hook = hook

    def tick(self):
        if self.hook is not None:
            self.hook()
        self.n += 1
        if self.raise_at is not None and self.n == self.raise_at:
            raise SimFault(f"injected callback fault at call {self.n}")


def make_pred(spec, counter):
    p = spec["p"]
    k = spec.get("k")
    v = spec.get("v")

    def pred(x):
        counter.tick()
        if p == "eq":
            return x.get(k) == v
        if p == "none":
            return x.get(k) is None
        if p == "gt":
            return isinstance(x.get(k), int) and x.get(k) > v
        if p == "has":
            return k in x
        if p == "const":
            return v
        if p == "first_n":
            return counter.n <= v        # stateful: true for the first v items it is asked about
        raise AssertionError(p)
    return pred


def make_fn(spec, counter):
    f = spec["f"]
    k = spec.get("k")
    v = spec.get("v")

    def fn(x):
        counter.tick()
        if f == "const":
            return copy.deepcopy(v)
        if f == "inc":
            return (x.get(k) if isinstance(x.get(k), int) else 0) + 1
        if f == "copykey":
            return copy.deepcopy(x.get(k))
        if f == "nkeys":
            return len(x)
        raise AssertionError(f)
    return fn


def make_agg(spec):
    g = spec["g"]
    k = spec.get("k")

    def fn(items):
        if g == "raise":
            if spec["exc"] == "StopIteration":
                raise StopIteration("injected")
            raise SimFault("injected aggregate callback fault")
        if g == "len":
            return len(items)
        if g == "sum":
            return sum(x.get(k) if isinstance(x.get(k), int) else 0 for x in items)
        if g == "pluck":
            return [copy.deepcopy(x.get(k)) for x in items]
        if g == "first":
            return copy.deepcopy(items[0].get(k))
        raise AssertionError(g)
    return fn


def make_map(spec):
    m = spec["m"]
    k = spec.get("k")
    if m == "value":
        return lambda x: copy.deepcopy(x.get(k))
    if m == "dict":
        return lambda x: {"m": copy.deepcopy(x.get(k)), "nk": len(x)}
    if m == "mixed":
        return lambda x: ({"m": 1} if x.get(k) is None else 0)
    if m == "identity":
        return lambda x: x
    raise AssertionError(m)


# ---------------------------------------------------------------------------
# Reference semantics: plain Python on plain dicts

def split_by(by):
    by1 = [x if isinstance(x, str) else x[0] for x in by]
    by2 = [x if isinstance(x, str) else x[1] for x in by]
    return by1, by2


def ref_sort(items, key_dirs):
    out = list(items)
    for key, dir in reversed(key_dirs):
        non = [x for x in out if x[key] is not None]
        nas = [x for x in out if x[key] is None]
        non = sorted(non, key=lambda x: x[key], reverse=(dir < 0))
        out = non + nas
    return out


def ref_first_match(x, other, by1, by2):
    for y in other:
        if all(x[k1] == y[k2] for k1, k2 in zip(by1, by2)):
            return y
    return None


def defined_keys(items, keys):
    return all(k in x for x in items for k in keys)


def sortable(items, key):
    vals = [x[key] for x in items if x[key] is not None]
    return all(isinstance(v, int) and not isinstance(v, bool) for v in vals) or \
        all(isinstance(v, str) for v in vals) or \
        all(isinstance(v, tuple) and all(isinstance(e, int) for e in v) for v in vals)


def hashable_vals(items, keys):
    try:
        for x in items:
            for k in keys:
                hash(x[k])
        return True
    except TypeError:
        return False


def mutable_ids(obj, acc):
    if isinstance(obj, dict):
        acc.add(id(obj))
        for v in obj.values():
            mutable_ids(v, acc)
    elif isinstance(obj, (list, set)):
        acc.add(id(obj))
        for v in obj:
            mutable_ids(v, acc)
    elif isinstance(obj, tuple):
        for v in obj:
            mutable_ids(v, acc)
    return acc


def plain(obj):
    """Real value -> plain structure for comparison / digest."""
    if isinstance(obj, dict):
        return {k: plain(v) for k, v in obj.items()}
    if isinstance(obj, tuple):
        return tuple(plain(v) for v in obj)
    if isinstance(obj, list):
        return [plain(v) for v in obj]
    return obj


def freeze(obj):
    """Trace form of an op: tuples (which JSON would turn into lists) become tagged dicts."""
    if isinstance(obj, tuple):
        return {"__tup__": [freeze(v) for v in obj]}
    if isinstance(obj, list):
        return [freeze(v) for v in obj]
    if isinstance(obj, dict):
        return {k: freeze(v) for k, v in obj.items()}
    return obj


def thaw(obj):
    """Executable form of a trace op (inverse of freeze; always a fresh structure)."""
    if isinstance(obj, dict):
        if len(obj) == 1 and "__tup__" in obj:
            return tuple(thaw(v) for v in obj["__tup__"])
        return {k: thaw(v) for k, v in obj.items()}
    if isinstance(obj, list):
        return [thaw(v) for v in obj]
    return obj


def same(a, b):
    """Deep equality that does not confuse 1 / True / 1.0."""
    if isinstance(a, dict) and isinstance(b, dict):
        return a.keys() == b.keys() and all(same(a[k], b[k]) for k in a)
    if isinstance(a, (list, tuple)) and type(a) is type(b):
        return len(a) == len(b) and all(same(x, y) for x, y in zip(a, b))
    return type(a) is type(b) and a == b


# ---------------------------------------------------------------------------

class MList:
    """Model of one list handle."""

    def __init__(self, items, group=()):
        self.items = items            # list of model dict objects
        self.group = tuple(group)
        self.strong = set()           # parent handles through item-handing methods
        self.weak = set()             # parent handles through _new with no shared item
        self.obs = False              # False / True / None (= either)
        self.why = ""
        self.left = set()             # the subset of strong parents that is the _new predecessor
        self.warned = False           # False / True / None


class World:

    def __init__(self, prop, rng=None, config=None):
        import dataiter
        self.di = dataiter
        self.L = dataiter.ListOfDicts
        from attd import AttributeDict
        self.AD = AttributeDict
        self.prop = prop
        self.rng = rng
        self.config = config
        self.lists = {}
        self.model = {}
        self.r2m = {}
        self.m2r = {}
        self.keep = []
        self.dropped = set()
        self.gone = set()
        self.next_handle = 0
        self.violations = []
        self.faults = {}
        self.probes = {"obsolete_via_two_level_chain": 0, "warned_once_checked": 0,
                       "either_state": 0, "insert_at_end": 0, "tail_zero": 0,
                       "join_renamed_keys": 0, "join_duplicate_right": 0,
                       "self_join": 0, "deepcopy_then_edit": 0, "fault_prefix_edit": 0,
                       "empty_list_op": 0, "right_operand_obsolete": 0,
                       "full_join_property_checked": 0, "undefined_semantics_op": 0,
                       "render_obsolete": 0}
        self.opcount = {}
        self.log = []
        self.step = -1
        self.abstract = []
        self.deep_edit_pending = set()

    # -- bookkeeping ------------------------------------------------------

    def viol(self, prop, oracle, sig, detail):
        self.violations.append(Violation(prop, oracle, sig, self.step, detail))

    def pair(self, real, model):
        self.r2m[id(real)] = model
        self.m2r[id(model)] = real
        self.keep.append(real)

    def new_handle(self):
        h = self.next_handle
        self.next_handle += 1
        return h

    def register(self, handle, real, mitems, group=()):
        self.lists[handle] = real
        self.model[handle] = MList(mitems, group)
        return self.model[handle]

    def flag(self, real, name):
        return list.__getattribute__(real, name)

    def ancestors(self, h, strong_only):
        seen = set()
        stack = [h]
        while stack:
            x = stack.pop()
            ps = set(self.model[x].strong) | set(getattr(self.model[x], "observed", ()))
            if not strong_only:
                ps |= self.model[x].weak
            for p in ps:
                if p not in seen and p in self.model:
                    seen.add(p)
                    stack.append(p)
        return seen

    # -- oracles ----------------------------------------------------------

    def check_heap(self, op, relaxed_ids=()):
        """Every live item equals its model twin (isolation oracle)."""
        for real in self.keep:
            m = self.r2m[id(real)]
            if id(m) in relaxed_ids:
                continue
            if not same(plain(real), m):
                kind = op["op"]
                if kind in EDITING or kind in ("full_join",):
                    prop = "C16" if kind in JOINS else "C15"
                    sig = f"{prop}.heap|{kind}|item-content-differs-from-reference"
                else:
                    prop = "C17"
                    sig = f"C17.isolation|{kind}|non-modifying-op-changed-an-item"
                self.viol(prop, "heap", sig,
                          f"after {kind}: item {plain(real)!r} != reference {m!r}")
                # resynchronise so one defect does not cascade
                m.clear()
                m.update(copy.deepcopy(plain(real)))

    def check_list_identity(self, handle, op, prop="C15"):
        real = self.lists[handle]
        ml = self.model[handle]
        kind = op["op"]
        if not isinstance(real, self.L):
            self.viol(prop, "type", f"{prop}.type|{kind}|result-not-ListOfDicts",
                      f"{kind} returned {type(real).__name__}")
            return False
        rl = list.__iter__(real)
        rl = list(rl)
        if len(rl) != len(ml.items):
            self.viol(prop, "sequence", f"{prop}.sequence|{kind}|length",
                      f"{kind}: {len(rl)} items, reference has {len(ml.items)}: "
                      f"real={[plain(x) for x in rl]!r} ref={ml.items!r} op={op!r}")
            return False
        for i, (r, m) in enumerate(zip(rl, ml.items)):
            if not isinstance(r, self.AD):
                self.viol(prop, "attr", f"{prop}.attr|{kind}|item-not-attribute-dict",
                          f"{kind}: item {i} is {type(r).__name__}")
                return False
            known = self.r2m.get(id(r))
            if known is None and id(m) not in self.m2r:
                # both new: content must agree, then pair up
                if not same(plain(r), m):
                    self.viol(prop, "sequence", f"{prop}.sequence|{kind}|new-item-content",
                              f"{kind}: new item {i} is {plain(r)!r}, reference {m!r} op={op!r}")
                    return False
                self.pair(r, m)
            elif known is not m:
                self.viol(prop, "sequence", f"{prop}.sequence|{kind}|item-identity-or-order",
                          f"{kind}: position {i} holds {plain(r)!r}, reference expects {m!r}; "
                          f"real={[plain(x) for x in rl]!r} ref={ml.items!r} op={op!r}")
                return False
        # attribute access on items (C15 last sentence)
        for r in rl[:3]:
            for k in r:
                if isinstance(k, str) and k.isidentifier() and not hasattr(dict, k):
                    if getattr(r, k) is not r[k] and getattr(r, k) != r[k]:
                        self.viol(prop, "attr", f"{prop}.attr|{kind}|attribute-access",
                                  f"item.{k} differs from item[{k!r}]")
        return True

    def adopt(self, handle, real, group=(), sources=()):
        """Build the model list from the real one (resynchronisation)."""
        mitems = []
        shared = []
        for r in list.__iter__(real):
            m = self.r2m.get(id(r))
            if m is None:
                m = copy.deepcopy(plain(r))
                self.pair(r, m)
            else:
                shared.append(id(m))
            mitems.append(m)
        self.lists[handle] = real
        ml = MList(mitems, group)
        self.model[handle] = ml
        # a source list of this operation whose item objects were handed on is a parent, whatever
        # the method was (C17: "every list from which it was obtained through methods that hand
        # on the same item objects")
        ml.observed = set()
        if shared:
            ss = set(shared)
            for h2 in sources:
                m2 = self.model.get(h2)
                if m2 is not None and h2 != handle and any(id(x) in ss for x in m2.items):
                    ml.observed.add(h2)
        return ml

    # -- one step ---------------------------------------------------------

    def execute(self, op):
        self.step += 1
        kind = op["op"]
        self.opcount[kind] = self.opcount.get(kind, 0) + 1
        method = getattr(self, "op_" + kind)
        fault = op.get("fault")
        out = io.StringIO()
        entry = {"op": kind}
        self.pre_obs = {h: (ml.obs, ml.warned) for h, ml in self.model.items()}
        with contextlib.redirect_stdout(out):
            info = method(op)
        text = out.getvalue()
        info = info or {}
        entry.update(info.get("log", {}))
        entry["stdout"] = text
        self.log.append(entry)
        self.abstract.append((kind, (fault or {}).get("kind"), bool(info.get("raised"))))
        self.check_warnings(op, text, info)
        self.check_flags(op)
        return info

    # -- obsolescence -------------------------------------------------------

    def check_warnings(self, op, text, info):
        nwarn = text.count(WARNING)
        extra = text.replace(WARNING + "\n", "")
        kind = op["op"]
        if extra.strip() and op.get("how") != "print_":
            self.viol("C17", "stdout", f"C17.stdout|{kind}|unexpected-output",
                      f"{kind} printed {extra[:80]!r}")
        involved = info.get("involved", [])
        method_use = info.get("method_use", False)
        recv = involved[0] if involved else None
        required = 0
        allowed = 0
        for j, h in enumerate(involved):
            if h not in self.pre_obs:
                continue
            obs, warned = self.pre_obs[h]
            may = (obs is not False) and (warned is not True)
            must = (obs is True) and (warned is False) and j == 0 and method_use
            allowed += 1 if may else 0
            required += 1 if must else 0
        if nwarn < required:
            self.viol("C17", "warning", f"C17.warning|{kind}|obsolete-list-did-not-warn-on-use",
                      f"{kind} on obsolete list L{recv} printed no warning")
        elif nwarn > allowed:
            self.viol("C17", "warning",
                      f"C17.warning|{kind}|warning-from-non-obsolete-or-already-warned-list",
                      f"{kind} printed {nwarn} warning(s); at most {allowed} expected "
                      f"(involved {involved})")
        if required:
            self.probes["warned_once_checked"] += 1
        # sync the warned flags of the involved lists from the real objects
        for h in involved:
            ml = self.model.get(h)
            if ml is None:
                continue
            ml.warned = bool(self.flag(self.lists[h], "_obsolete_warned"))

    def check_flags(self, op):
        kind = op["op"]
        for h, ml in self.model.items():
            if h in self.gone:
                continue
            real = self.lists[h]
            robs = bool(self.flag(real, "_obsolete"))
            if ml.obs is None:
                self.probes["either_state"] += 1
                continue
            if ml.obs and not robs:
                why = ml.why
                self.viol("C17", "obsolete", f"C17.obsolete|{kind}|ancestor-not-marked-obsolete|{why}",
                          f"after {kind}: L{h} shares items edited in place by a successor "
                          f"({why}) but does not report itself obsolete")
                ml.obs = None
            elif robs and not ml.obs:
                self.viol("C17", "obsolete", f"C17.obsolete|{kind}|non-ancestor-marked-obsolete",
                          f"after {kind}: L{h} reports itself obsolete but is neither the receiver "
                          f"nor an ancestor of an editing method")
                ml.obs = None

    def mark_edit(self, recv, extra_strong=()):
        """An editing method ran successfully on handle recv."""
        strong = self.ancestors(recv, True)
        allanc = self.ancestors(recv, False)
        if len(strong) >= 2:
            self.probes["obsolete_via_two_level_chain"] += 1
        for h in [recv] + sorted(strong):
            ml = self.model[h]
            if ml.obs is not True:
                ml.obs = True
                ml.why = "receiver" if h == recv else \
                    ("right-operand-of-add/extend" if self._via_right(recv, h) else "ancestor")
                if ml.warned is None:
                    ml.warned = None
        for h in sorted(allanc - strong):
            ml = self.model[h]
            if ml.obs is False:
                ml.obs = None

    def _via_right(self, recv, h):
        """True if h is reachable from recv only through a right-operand link."""
        # strong links that are 'left' (the _new predecessor) are stored in .left
        seen = set()
        stack = [recv]
        while stack:
            x = stack.pop()
            for p in getattr(self.model[x], "left", set()):
                if p not in seen and p in self.model:
                    seen.add(p)
                    stack.append(p)
        if h not in seen:
            self.probes["right_operand_obsolete"] += 1
            return True
        return False

    # -- helpers for ops ----------------------------------------------------

    def call(self, f):
        try:
            return f(), None
        except SimFault as e:
            return None, e
        except Exception as e:
            return None, e

    def derive(self, op, real, mitems, recv, strong=(), weak=(), group=None, left=None):
        """Register a result list."""
        h = op["out"]
        g = self.model[recv].group if (group is None and recv is not None) else (group or ())
        ml = self.register(h, real, mitems, g)
        ml.strong = set(strong)
        ml.weak = set(weak)
        ml.left = set(left if left is not None else ([recv] if recv is not None and recv in ml.strong else []))
        return ml

    def result_log(self, h):
        return {"result": [plain(x) for x in list.__iter__(self.lists[h])]}

    def handing_op(self, op, call_real, mitems, prop="C15", strong=None, weak=(), others=(),
                   method_use=True, undefined=False, fault_may=False):
        """
        Common path for operations that return a list handing on existing
        items and/or new ones, without editing any item.
        """
        recv = op["t"]
        kind = op["op"]
        res, err = self.call(call_real)
        involved = [recv] + list(others)
        info = {"involved": involved, "method_use": method_use}
        if err is not None:
            info["raised"] = True
            info["log"] = {"raised": type(err).__name__}
            if isinstance(err, SimFault):
                self.faults["callback_raise"] = self.faults.get("callback_raise", 0) + 1
            elif undefined:
                self.probes["undefined_semantics_op"] += 1
            else:
                self.viol(prop, "total", f"{prop}.raise|{kind}|{type(err).__name__}",
                          f"{kind} raised {err!r} on defined input op={op!r}")
            self.check_heap(op)
            return info
        if mitems is None:
            # undefined reference semantics: only isolation is checked
            self.probes["undefined_semantics_op"] += 1
            if isinstance(res, self.L):
                ml = self.adopt(op["out"], res, self.model[recv].group)
                ml.strong = set([recv] + list(others)) if strong is None else set(strong)
                ml.left = {recv}
                ml.obs = False
            self.check_heap(op)
            return info
        ml = self.derive(op, res, mitems, recv,
                         strong=([recv] if strong is None else strong), weak=weak)
        ok = self.check_list_identity(op["out"], op, prop)
        if not ok:
            if isinstance(res, self.L):
                st, wk, lf = ml.strong, ml.weak, ml.left
                ml = self.adopt(op["out"], res, ml.group)
                ml.strong, ml.weak, ml.left = st, wk, lf
            else:
                del self.lists[op["out"]]
                del self.model[op["out"]]
        self.check_heap(op)
        if op["out"] in self.lists:
            info["log"] = self.result_log(op["out"])
        return info

    # -- constructors -------------------------------------------------------

    def op_new(self, op):
        items = copy.deepcopy(op["items"])
        real = self.L(items)
        mitems = copy.deepcopy(op["items"])
        self.register(op["out"], real, mitems)
        self.model[op["out"]].left = set()
        self.check_list_identity(op["out"], op)
        if not mitems:
            self.probes["empty_list_op"] += 1
        return {"involved": [], "log": self.result_log(op["out"])}

    # -- non-modifying, handing on -----------------------------------------

    def op_filter(self, op):
        return self._filter(op, False)

    def op_filter_out(self, op):
        return self._filter(op, True)

    def _filter(self, op, negate):
        recv = op["t"]
        real = self.lists[recv]
        m = self.model[recv]
        name = "filter_out" if negate else "filter"
        if "pred" in op:
            fault = op.get("fault") or {}
            cr = Counter(fault.get("at"))
            cm = Counter(None)
            pr = make_pred(op["pred"], cr)
            pm = make_pred(op["pred"], cm)
            mitems = [x for x in m.items if bool(pm(x)) != negate]
            return self.handing_op(op, lambda: getattr(real, name)(pr), mitems)
        kv = op["kv"]
        keys = list(kv)
        undefined = not defined_keys(m.items, keys)
        if undefined:
            mitems = None
        else:
            mitems = [x for x in m.items
                      if all(x[k] == v for k, v in kv.items()) != negate]
        return self.handing_op(op, lambda: getattr(real, name)(**kv), mitems, undefined=undefined)

    def op_sort(self, op):
        recv = op["t"]
        real = self.lists[recv]
        m = self.model[recv]
        kd = [tuple(x) for x in op["key_dirs"]]
        keys = [k for k, d in kd]
        undefined = not defined_keys(m.items, keys) or not all(sortable(m.items, k) for k in keys)
        mitems = None if undefined else ref_sort(m.items, kd)
        return self.handing_op(op, lambda: real.sort(**dict(kd)), mitems, undefined=undefined)

    def op_unique(self, op):
        recv = op["t"]
        real = self.lists[recv]
        m = self.model[recv]
        keys = op["keys"]
        if not m.items:
            self.probes["empty_list_op"] += 1
        if not keys:
            common = None
            for x in m.items:
                common = set(x) if common is None else common & set(x)
            eff = sorted(common or [])
            undefined = bool(m.items) and not eff
        else:
            eff = keys
            undefined = not defined_keys(m.items, keys)
        if not undefined:
            undefined = not hashable_vals(m.items, eff)
        if undefined:
            mitems = None
        else:
            seen = []
            mitems = []
            for x in m.items:
                ident = tuple(x[k] for k in eff)
                if ident not in seen:
                    seen.append(ident)
                    mitems.append(x)
        return self.handing_op(op, lambda: real.unique(*keys), mitems, undefined=undefined)

    def op_head(self, op):
        recv = op["t"]
        real = self.lists[recv]
        m = self.model[recv]
        n = op["n"]
        if n is None:
            eff = self.di.DEFAULT_PEEK_ITEMS
        else:
            eff = n
        mitems = m.items[:min(eff, len(m.items))]
        return self.handing_op(op, lambda: real.head(n) if n is not None else real.head(), mitems)

    def op_tail(self, op):
        recv = op["t"]
        real = self.lists[recv]
        m = self.model[recv]
        n = op["n"]
        eff = self.di.DEFAULT_PEEK_ITEMS if n is None else n
        k = min(eff, len(m.items))
        if k == 0:
            self.probes["tail_zero"] += 1
        mitems = m.items[len(m.items) - k:]
        return self.handing_op(op, lambda: real.tail(n) if n is not None else real.tail(), mitems)

    def op_slice(self, op):
        recv = op["t"]
        real = self.lists[recv]
        m = self.model[recv]
        s = slice(op["start"], op["stop"], op["stride"])
        return self.handing_op(op, lambda: real[s], m.items[s], method_use=True)

    def op_reverse(self, op):
        recv = op["t"]
        real = self.lists[recv]
        m = self.model[recv]
        return self.handing_op(op, lambda: real.reverse(), m.items[::-1])

    def op_copy(self, op):
        recv = op["t"]
        real = self.lists[recv]
        m = self.model[recv]
        return self.handing_op(op, lambda: real.copy(), list(m.items))

    def op_clear(self, op):
        recv = op["t"]
        real = self.lists[recv]
        return self.handing_op(op, lambda: real.clear(), [], strong=[], weak=[recv])

    def op_drop_na(self, op):
        recv = op["t"]
        real = self.lists[recv]
        m = self.model[recv]
        keys = op["keys"]
        mitems = [x for x in m.items if all(x.get(k) is not None for k in keys)]
        return self.handing_op(op, lambda: real.drop_na(*keys), mitems)

    def op_sample(self, op):
        recv = op["t"]
        real = self.lists[recv]
        m = self.model[recv]
        n = op["n"]
        random.seed(op["rseed"])
        res, err = self.call(lambda: real.sample(n) if n is not None else real.sample())
        info = {"involved": [recv], "method_use": True}
        kind = "sample"
        if err is not None:
            self.viol("C15", "total", f"C15.raise|sample|{type(err).__name__}", f"sample raised {err!r}")
            info["raised"] = True
            return info
        eff = self.di.DEFAULT_PEEK_ITEMS if n is None else n
        want = min(eff, len(m.items))
        rl = list(list.__iter__(res))
        pos = 0
        ok = len(rl) == want
        src = [self.m2r[id(x)] for x in m.items]
        for r in rl:
            while pos < len(src) and src[pos] is not r:
                pos += 1
            if pos >= len(src):
                ok = False
                break
            pos += 1
        if not ok:
            self.viol("C17", "sequence", "C17.sequence|sample|not-an-ordered-subsequence",
                      f"sample({n}) returned {[plain(x) for x in rl]!r} from {m.items!r}")
        ml = self.adopt(op["out"], res, m.group)
        ml.strong = {recv}
        ml.left = {recv}
        self.check_heap(op)
        info["log"] = self.result_log(op["out"])
        return info

    def op_append(self, op):
        recv = op["t"]
        real = self.lists[recv]
        m = self.model[recv]
        item = copy.deepcopy(op["item"])
        mitems = m.items + [copy.deepcopy(op["item"])]
        return self.handing_op(op, lambda: real.append(item), mitems)

    def op_insert(self, op):
        recv = op["t"]
        real = self.lists[recv]
        m = self.model[recv]
        item = copy.deepcopy(op["item"])
        mitems = list(m.items)
        mitems.insert(op["index"], copy.deepcopy(op["item"]))
        if op["index"] >= len(m.items):
            self.probes["insert_at_end"] += 1
        return self.handing_op(op, lambda: real.insert(op["index"], item), mitems)

    def op_extend(self, op):
        recv = op["t"]
        real = self.lists[recv]
        m = self.model[recv]
        if "other" in op:
            o = op["other"]
            other = self.lists[o]
            mitems = m.items + self.model[o].items
            return self.handing_op(op, lambda: real.extend(other), mitems,
                                   strong=[recv, o], others=[o])
        lit = copy.deepcopy(op["items"])
        mitems = m.items + copy.deepcopy(op["items"])
        return self.handing_op(op, lambda: real.extend(lit), mitems)

    def op_add(self, op):
        recv = op["t"]
        o = op["other"]
        real = self.lists[recv]
        other = self.lists[o]
        mitems = self.model[recv].items + self.model[o].items
        return self.handing_op(op, lambda: real + other, mitems, strong=[recv, o],
                               others=[o], method_use=True)

    def op_mul(self, op):
        recv = op["t"]
        real = self.lists[recv]
        n = op["n"]
        mitems = self.model[recv].items * n
        if op.get("r"):
            return self.handing_op(op, lambda: n * real, mitems, method_use=True)
        return self.handing_op(op, lambda: real * n, mitems, method_use=True)

    def op_group_by(self, op):
        recv = op["t"]
        real = self.lists[recv]
        res, err = self.call(lambda: real.group_by(*op["keys"]))
        if err is None and res is not real:
            self.viol("C15", "type", "C15.type|group_by|not-receiver", "group_by did not return the receiver")
        self.model[recv].group = tuple(op["keys"])
        self.check_heap(op)
        return {"involved": [recv], "method_use": True}

    # -- constructors that must copy: ListOfDicts(existing), extend(plain list of items) ------

    def op_construct_from(self, op):
        recv = op["t"]
        real = self.lists[recv]
        m = self.model[recv]
        res, err = self.call(lambda: self.L(real))
        info = {"involved": [], "method_use": False}
        if err is not None:
            self.viol("C15", "total", f"C15.raise|construct_from|{type(err).__name__}", repr(err))
            return info
        ml = self.adopt(op["out"], res, (), sources=[recv])
        ml.strong, ml.weak, ml.left = set(), set(), set()
        got = [plain(x) for x in list.__iter__(res)]
        if not same(got, [dict(x) for x in m.items]):
            self.viol("C15", "value", "C15.value|construct_from|differs", f"{got!r} != {m.items!r}")
        self.check_heap(op)
        return info

    def op_extend_items(self, op):
        recv, o = op["t"], op["other"]
        real, other = self.lists[recv], self.lists[o]
        m = self.model[recv]
        plain_list = list(list.__iter__(other))      # a plain Python list holding other's items
        res, err = self.call(lambda: real.extend(plain_list))
        info = {"involved": [recv], "method_use": True}
        if err is not None:
            self.viol("C15", "total", f"C15.raise|extend_items|{type(err).__name__}", repr(err))
            info["raised"] = True
            return info
        known_before = set(self.r2m)
        ml = self.adopt(op["out"], res, m.group)
        ml.strong, ml.left = {recv}, {recv}
        # only the appended part can have been handed on from `other`
        tail = list(list.__iter__(res))[len(m.items):]
        if any(id(x) in known_before for x in tail):
            ml.observed = {o}
        got = [plain(x) for x in list.__iter__(res)]
        want = [dict(x) for x in m.items] + [dict(x) for x in self.model[o].items]
        if not same(got, want):
            self.viol("C15", "value", "C15.sequence|extend_items|differs", f"{got!r} != {want!r}")
        self.check_heap(op)
        return info

    # -- edits the caller makes directly (documented: items are plain dicts with attribute
    # access; "you can use those [in-place methods] from the list baseclass") ---------------

    def op_item_set(self, op):
        recv = op["t"]
        real = self.lists[recv]
        m = self.model[recv]
        if not m.items:
            return {"involved": [], "method_use": False}
        i = op["index"] % len(m.items)
        item = list.__getitem__(real, i)
        v = copy.deepcopy(op["value"])
        if op.get("via") == "attr" and op["key"].isidentifier():
            setattr(item, op["key"], v)
        else:
            item[op["key"]] = v
        m.items[i][op["key"]] = copy.deepcopy(op["value"])
        self.check_heap(op)
        return {"involved": [], "method_use": False}

    def op_list_append(self, op):
        recv = op["t"]
        real = self.lists[recv]
        m = self.model[recv]
        new = self.AD(copy.deepcopy(op["item"]))
        list.append(real, new)
        mnew = copy.deepcopy(op["item"])
        m.items.append(mnew)
        self.pair(new, mnew)
        self.check_heap(op)
        return {"involved": [], "method_use": False}

    # -- plain-value observers ---------------------------------------------

    def op_pluck(self, op):
        recv = op["t"]
        real = self.lists[recv]
        m = self.model[recv]
        res, err = self.call(lambda: real.pluck(op["key"], op["default"]))
        exp = [x.get(op["key"], op["default"]) for x in m.items]
        if err is not None or not same(plain(res), exp):
            self.viol("C15", "value", "C15.value|pluck|differs", f"pluck: {res!r} != {exp!r} ({err!r})")
        self.check_heap(op)
        return {"involved": [recv], "method_use": True, "log": {"result": plain(res)}}

    def op_keys(self, op):
        recv = op["t"]
        real = self.lists[recv]
        m = self.model[recv]
        res, err = self.call(lambda: list(real.keys()))
        exp = list(dict.fromkeys(itertools.chain(*m.items)))
        if err is not None or res != exp:
            self.viol("C15", "value", "C15.value|keys|differs", f"keys: {res!r} != {exp!r} ({err!r})")
        self.check_heap(op)
        return {"involved": [recv], "method_use": True, "log": {"result": res}}

    def op_len(self, op):
        recv = op["t"]
        n = len(self.lists[recv])
        if n != len(self.model[recv].items):
            self.viol("C15", "value", "C15.value|len|differs", f"len {n} != {len(self.model[recv].items)}")
        return {"involved": [recv], "method_use": False, "log": {"result": n}}

    def op_getitem(self, op):
        recv = op["t"]
        real = self.lists[recv]
        m = self.model[recv]
        i = op["index"]
        res, err = self.call(lambda: real[i])
        try:
            exp = m.items[i]
        except IndexError:
            exp = IndexError
        if exp is IndexError:
            if not isinstance(err, IndexError):
                self.viol("C15", "value", "C15.value|getitem|no-IndexError", f"[{i}] gave {res!r} / {err!r}")
        elif err is not None or self.r2m.get(id(res)) is not exp:
            self.viol("C15", "value", "C15.value|getitem|differs", f"[{i}] gave {res!r} / {err!r}, expected {exp!r}")
        return {"involved": [recv], "method_use": False}

    def op_map(self, op):
        recv = op["t"]
        real = self.lists[recv]
        m = self.model[recv]
        fn = make_map(op["map"])
        res, err = self.call(lambda: real.map(fn))
        exp = [fn(x) for x in m.items]
        info = {"involved": [recv], "method_use": True}
        if err is not None:
            self.viol("C15", "total", f"C15.raise|map|{type(err).__name__}", f"map raised {err!r}")
            info["raised"] = True
            return info
        if not same(plain(res), exp):
            self.viol("C15", "value", "C15.value|map|differs", f"map: {plain(res)!r} != {exp!r}")
        coerce = all(isinstance(x, dict) for x in exp)
        if coerce != isinstance(res, self.L):
            self.viol("C15", "type", "C15.type|map|coercion", f"map returned {type(res).__name__}, dicts={coerce}")
        if isinstance(res, self.L):
            ml = self.adopt(op["out"], res, (), sources=[recv])
            ml.strong = set()
            ml.weak = set()
            ml.left = set()
        self.check_heap(op)
        info["log"] = {"result": plain(res)}
        return info

    def op_split(self, op):
        recv = op["t"]
        real = self.lists[recv]
        m = self.model[recv]
        by = op["keys"]
        undefined = not defined_keys(m.items, by) or not hashable_vals(m.items, by)
        res, err = self.call(lambda: real.split(*by))
        info = {"involved": [recv], "method_use": True}
        if undefined:
            self.probes["undefined_semantics_op"] += 1
        elif err is not None:
            self.viol("C16", "total", f"C16.raise|split|{type(err).__name__}", f"split raised {err!r}")
        else:
            groups = {}
            for i, x in enumerate(m.items):
                groups.setdefault(tuple(x[k] for k in by), []).append(i)
            if [list(x) for x in res] != list(groups.values()):
                self.viol("C16", "value", "C16.value|split|differs",
                          f"split: {res!r} != {list(groups.values())!r}")
        self.check_heap(op)
        return info

    # -- copies ---------------------------------------------------------------

    def op_deepcopy(self, op):
        recv = op["t"]
        real = self.lists[recv]
        m = self.model[recv]
        res, err = self.call(lambda: real.deepcopy())
        info = {"involved": [recv], "method_use": True}
        if err is not None:
            self.viol("C17", "total", f"C17.raise|deepcopy|{type(err).__name__}", f"deepcopy raised {err!r}")
            info["raised"] = True
            return info
        # an item occurring twice may be copied once or twice: follow the real result
        mitems = []
        first_at = {}
        for i, r in enumerate(list.__iter__(res)):
            if id(r) in first_at:
                mitems.append(mitems[first_at[id(r)]])
            else:
                first_at[id(r)] = i
                mitems.append(copy.deepcopy(m.items[i]) if i < len(m.items) else {})
        if len(mitems) != len(m.items):
            mitems = [copy.deepcopy(x) for x in m.items]
        ml = self.derive(op, res, mitems, recv, strong=[], weak=[], group=m.group)
        # no mutable object reachable from the copy may be reachable from any live item
        theirs = set()
        for r in self.keep:
            mutable_ids(r, theirs)
        mine = set()
        for r in list.__iter__(res):
            mutable_ids(r, mine)
        if mine & theirs:
            self.viol("C17", "deepcopy", "C17.deepcopy|deepcopy|shares-mutable-object-with-original",
                      f"deepcopy of L{recv} shares {len(mine & theirs)} mutable object(s) with live items")
            ml = self.adopt(op["out"], res, m.group)
            ml.left = set()
        else:
            ok = self.check_list_identity(op["out"], op, "C17")
            if not ok:
                ml = self.adopt(op["out"], res, m.group)
                ml.left = set()
        if self.flag(res, "_predecessor") is not None and False:
            pass
        self.deep_edit_pending.add(op["out"])
        self.check_heap(op)
        info["log"] = self.result_log(op["out"])
        return info

    # -- editing methods ------------------------------------------------------

    def editing_op(self, op, call_real, apply_model, prop, others=(), undefined=False,
                   allocates=False):
        """
        apply_model(counter) -> list of model items of the result; it edits the
        model heap the way plain Python would.  On an injected callback fault
        the real code may have edited a prefix of the items: every touched
        item must equal either its pre- or its post-state.
        """
        recv = op["t"]
        kind = op["op"]
        m = self.model[recv]
        fault = op.get("fault") or {}
        involved = [recv] + list(others)
        info = {"involved": involved, "method_use": True}
        pre = {id(x): copy.deepcopy(x) for x in m.items}
        if recv in self.deep_edit_pending or any(a in self.deep_edit_pending
                                                 for a in self.ancestors(recv, True)):
            self.probes["deepcopy_then_edit"] += 1
        res, err = self.call(call_real)
        if err is not None:
            info["raised"] = True
            info["log"] = {"raised": type(err).__name__}
            if isinstance(err, SimFault):
                self.faults["callback_raise"] = self.faults.get("callback_raise", 0) + 1
                # model: run to completion on a scratch copy, snapshotting every item at
                # every callback invocation; a touched item must equal one of its snapshots
                snaps = {}
                apply_model_scratch = op.get("_scratch")
                if apply_model_scratch:
                    scratch = copy.deepcopy(m.items)
                    pairs_so = list(zip(scratch, m.items))

                    def hook():
                        for s_, o_ in pairs_so:
                            snaps.setdefault(id(o_), []).append(copy.deepcopy(s_))
                    try:
                        apply_model_scratch(scratch, hook)
                    except Exception:
                        pass
                    hook()
                touched = 0
                for x in m.items:
                    real_item = self.m2r[id(x)]
                    now = plain(real_item)
                    if same(now, pre[id(x)]):
                        continue
                    touched += 1
                    if snaps and not any(same(now, s_) for s_ in snaps.get(id(x), [])):
                        self.viol(prop, "fault", f"{prop}.fault|{kind}|garbage-after-callback-fault",
                                  f"{kind} interrupted by callback fault left item {now!r}, which is "
                                  f"no intermediate state of the reference execution; pre {pre[id(x)]!r}")
                    x.clear()
                    x.update(copy.deepcopy(now))
                if touched:
                    self.probes["fault_prefix_edit"] += 1
                for h in [recv] + sorted(self.ancestors(recv, False)):
                    if self.model[h].obs is False:
                        self.model[h].obs = None
                self.check_heap(op)
                return info
            if undefined:
                self.probes["undefined_semantics_op"] += 1
                # undefined input: items may have been partially edited; resync
                for x in m.items:
                    now = plain(self.m2r[id(x)])
                    if not same(now, x):
                        x.clear()
                        x.update(copy.deepcopy(now))
                for h in [recv] + sorted(self.ancestors(recv, False)):
                    if self.model[h].obs is False:
                        self.model[h].obs = None
                self.check_heap(op)
                return info
            self.viol(prop, "total", f"{prop}.raise|{kind}|{type(err).__name__}",
                      f"{kind} raised {err!r} on defined input op={op!r}")
            for x in m.items:
                now = plain(self.m2r[id(x)])
                if not same(now, x):
                    x.clear()
                    x.update(copy.deepcopy(now))
            for h in [recv] + sorted(self.ancestors(recv, False)):
                if self.model[h].obs is False:
                    self.model[h].obs = None
            return info
        if undefined:
            # returned although the reference semantics are undefined: adopt
            self.probes["undefined_semantics_op"] += 1
            for x in m.items:
                now = plain(self.m2r[id(x)])
                if not same(now, x):
                    x.clear()
                    x.update(copy.deepcopy(now))
            if isinstance(res, self.L):
                ml = self.adopt(op["out"], res, m.group)
                ml.strong = {recv}
                ml.left = {recv}
            self.mark_edit(recv)
            self.check_heap(op)
            return info
        # choose the in-place or the allocating variant for select/rename
        in_place = True
        if allocates:
            rl = list(list.__iter__(res)) if isinstance(res, list) else []
            in_place = bool(rl) and all(id(r) in self.r2m for r in rl)
        mitems = apply_model(in_place)
        ml = self.derive(op, res, mitems, recv, strong=[recv])
        ok = self.check_list_identity(op["out"], op, prop)
        if not ok:
            if isinstance(res, self.L):
                ml = self.adopt(op["out"], res, m.group)
                ml.strong = {recv}
                ml.left = {recv}
            else:
                del self.lists[op["out"]]
                del self.model[op["out"]]
        self.mark_edit(recv)
        self.check_heap(op)
        if op["out"] in self.lists:
            info["log"] = self.result_log(op["out"])
        return info

    @staticmethod
    def _between(pre, post, now):
        """now is an intermediate state: every key holds its pre or post value."""
        for k in set(pre) | set(post) | set(now):
            opts = []
            if k in pre:
                opts.append(pre[k])
            if k in post:
                opts.append(post[k])
            if k not in now:
                if k in pre and k in post:
                    return False
                continue
            if not any(same(now[k], o) for o in opts):
                return False
        return True

    def op_modify(self, op):
        recv = op["t"]
        real = self.lists[recv]
        fault = op.get("fault") or {}
        pairs = [(k, s) for k, s in op["pairs"]]
        cr = Counter(fault.get("at"))
        rf = {k: make_fn(s, cr) for k, s in pairs}

        def model_apply(items, hook=None):
            cm = Counter(None, hook)
            mf = [(k, make_fn(s, cm)) for k, s in pairs]
            for x in items:
                for k, f in mf:
                    x[k] = f(x)

        op["_scratch"] = model_apply

        def apply_model(in_place):
            items = self.model[recv].items
            model_apply(items)
            return list(items)
        try:
            return self.editing_op(op, lambda: real.modify(**rf), apply_model, "C15")
        finally:
            op.pop("_scratch", None)

    def op_modify_if(self, op):
        recv = op["t"]
        real = self.lists[recv]
        fault = op.get("fault") or {}
        pairs = [(k, s) for k, s in op["pairs"]]
        cr = Counter(fault.get("at"))
        rp = make_pred(op["pred"], cr)
        rf = {k: make_fn(s, cr) for k, s in pairs}

        def model_apply(items, hook=None):
            cm = Counter(None, hook)
            mp = make_pred(op["pred"], cm)
            mf = [(k, make_fn(s, cm)) for k, s in pairs]
            for x in items:
                if mp(x):
                    for k, f in mf:
                        x[k] = f(x)

        op["_scratch"] = model_apply

        def apply_model(in_place):
            items = self.model[recv].items
            model_apply(items)
            return list(items)
        try:
            return self.editing_op(op, lambda: real.modify_if(rp, **rf), apply_model, "C15")
        finally:
            op.pop("_scratch", None)

    def op_fill_missing_keys(self, op):
        recv = op["t"]
        real = self.lists[recv]
        kv = op["kv"]

        def apply_model(in_place):
            items = self.model[recv].items
            fill = kv if kv else dict.fromkeys(itertools.chain(*items), None)
            for x in items:
                for k, v in fill.items():
                    if k not in x:
                        x[k] = copy.deepcopy(v)
            return list(items)
        return self.editing_op(op, lambda: real.fill_missing_keys(**copy.deepcopy(kv)),
                               apply_model, "C15")

    def op_unselect(self, op):
        recv = op["t"]
        real = self.lists[recv]
        keys = op["keys"]

        def apply_model(in_place):
            items = self.model[recv].items
            for x in items:
                for k in keys:
                    x.pop(k, None)
            return list(items)
        return self.editing_op(op, lambda: real.unselect(*keys), apply_model, "C15")

    def op_select(self, op):
        recv = op["t"]
        real = self.lists[recv]
        keys = op["keys"]

        def apply_model(in_place):
            items = self.model[recv].items
            if in_place:
                for x in items:
                    new = {k: x[k] for k in keys if k in x}
                    x.clear()
                    x.update(new)
                return list(items)
            return [{k: copy.deepcopy(x[k]) for k in keys if k in x} for x in items]
        return self.editing_op(op, lambda: real.select(*keys), apply_model, "C15", allocates=True)

    def op_rename(self, op):
        recv = op["t"]
        real = self.lists[recv]
        to_from = [tuple(x) for x in op["to_from"]]
        renames = {fm: to for to, fm in to_from}

        def apply_model(in_place):
            items = self.model[recv].items
            new = [dict(zip([renames.get(k, k) for k in x], copy.deepcopy(list(x.values()))))
                   for x in items]
            if in_place:
                for x, n in zip(items, new):
                    x.clear()
                    x.update(n)
                return list(items)
            return new
        return self.editing_op(op, lambda: real.rename(**dict(to_from)), apply_model, "C15",
                               allocates=True)

    # -- joins ----------------------------------------------------------------

    def _join_defined(self, recv, o, by):
        by1, by2 = split_by(by)
        a = self.model[recv].items
        b = self.model[o].items
        return (defined_keys(a, by1) and defined_keys(b, by2) and
                hashable_vals(a, by1) and hashable_vals(b, by2))

    def _join_probes(self, recv, o, by):
        by1, by2 = split_by(by)
        if by1 != by2:
            self.probes["join_renamed_keys"] += 1
        if recv == o or set(map(id, self.model[recv].items)) & set(map(id, self.model[o].items)):
            self.probes["self_join"] += 1
        b = self.model[o].items
        if defined_keys(b, by2):
            ids = [tuple(repr(y[k]) for k in by2) for y in b]
            if len(set(ids)) < len(ids):
                self.probes["join_duplicate_right"] += 1

    def _by_arg(self, by):
        return [x if isinstance(x, str) else tuple(x) for x in by]

    def op_left_join(self, op):
        return self._merge_join(op, keep_unmatched=True)

    def op_inner_join(self, op):
        return self._merge_join(op, keep_unmatched=False)

    def _merge_join(self, op, keep_unmatched):
        recv, o = op["t"], op["other"]
        real, other = self.lists[recv], self.lists[o]
        by = self._by_arg(op["by"])
        by1, by2 = split_by(by)
        undefined = not self._join_defined(recv, o, by)
        # joining a list with (a list sharing items with) itself: the right items
        # are being edited while they are read - reference semantics undefined
        shared = set(map(id, self.model[recv].items)) & set(map(id, self.model[o].items))
        undefined = undefined or bool(shared)
        # a right item carrying a non-key entry named like one of the LEFT key columns would
        # overwrite the left item's join key during the merge (and, when the same left dict
        # occurs twice, change what the second occurrence is matched by): not defined
        left_ids = [id(x) for x in self.model[recv].items]
        if not undefined and len(set(left_ids)) < len(left_ids) and \
                any(k in by1 and k not in by2 for y in self.model[o].items for k in y):
            undefined = True
        self._join_probes(recv, o, by)
        name = "left_join" if keep_unmatched else "inner_join"

        def apply_model(in_place):
            items = self.model[recv].items
            right = self.model[o].items
            out = []
            for x in items:
                y = ref_first_match(x, right, by1, by2)
                if y is not None:
                    x.update({k: copy.deepcopy(v) for k, v in y.items() if k not in by2})
                    out.append(x)
                elif keep_unmatched:
                    out.append(x)
            return out
        return self.editing_op(op, lambda: getattr(real, name)(other, *by), apply_model, "C16",
                               others=[o], undefined=undefined)

    def op_semi_join(self, op):
        return self._filter_join(op, True)

    def op_anti_join(self, op):
        return self._filter_join(op, False)

    def _filter_join(self, op, matched):
        recv, o = op["t"], op["other"]
        real, other = self.lists[recv], self.lists[o]
        by = self._by_arg(op["by"])
        by1, by2 = split_by(by)
        undefined = not self._join_defined(recv, o, by)
        self._join_probes(recv, o, by)
        name = "semi_join" if matched else "anti_join"
        if undefined:
            mitems = None
        else:
            right = self.model[o].items
            mitems = [x for x in self.model[recv].items
                      if (ref_first_match(x, right, by1, by2) is not None) == matched]
        return self.handing_op(op, lambda: getattr(real, name)(other, *by), mitems, prop="C16",
                               strong=[recv], others=[o], undefined=undefined)

    def op_full_join(self, op):
        recv, o = op["t"], op["other"]
        real, other = self.lists[recv], self.lists[o]
        by = self._by_arg(op["by"])
        by1, by2 = split_by(by)
        a = self.model[recv].items
        b = self.model[o].items
        undefined = not self._join_defined(recv, o, by)
        self._join_probes(recv, o, by)
        res, err = self.call(lambda: real.full_join(other, *by))
        info = {"involved": [recv, o], "method_use": True}
        if err is not None:
            info["raised"] = True
            info["log"] = {"raised": type(err).__name__}
            if undefined:
                self.probes["undefined_semantics_op"] += 1
            else:
                renamed = "renamed-keys" if by1 != by2 else "same-keys"
                self.viol("C16", "total", f"C16.raise|full_join|{type(err).__name__}|{renamed}",
                          f"full_join raised {err!r} on defined input op={op!r} "
                          f"left={a!r} right={b!r}")
            self.check_heap(op)
            return info
        if not isinstance(res, self.L):
            self.viol("C16", "type", "C16.type|full_join|result-not-ListOfDicts", type(res).__name__)
            return info
        rl = list(list.__iter__(res))
        # fresh items: nothing shared with any live item
        if any(id(r) in self.r2m for r in rl):
            self.viol("C16", "sharing", "C16.sharing|full_join|result-shares-items-with-operand",
                      "full_join result contains an operand's item object")
        nonkey_a = set(itertools.chain(*a)) - set(by1)
        nonkey_b = set(itertools.chain(*b)) - set(by2)
        clean = (not undefined and not (nonkey_a & nonkey_b) and
                 not (set(by2) - set(by1)) & nonkey_a and not (set(by1) - set(by2)) & nonkey_b
                 and "_aid_" not in nonkey_a | nonkey_b and "_bid_" not in nonkey_a | nonkey_b)
        if clean:
            self.probes["full_join_property_checked"] += 1
            got = [plain(r) for r in rl]
            # (1) left part: left_join semantics, in order, as a subsequence
            exp_left = []
            for x in a:
                y = ref_first_match(x, b, by1, by2)
                e = dict(x)
                if y is not None:
                    e.update({k: v for k, v in y.items() if k not in by2})
                exp_left.append(e)
            pos = 0
            okleft = True
            for e in exp_left:
                while pos < len(got) and not same(got[pos], e):
                    pos += 1
                if pos >= len(got):
                    okleft = False
                    break
                pos += 1
            if not okleft:
                self.viol("C16", "full_join", "C16.full_join|full_join|left-items-not-kept-in-order",
                          f"full_join: left_join part {exp_left!r} is not an ordered subsequence "
                          f"of {got!r}")
            # (2) every right item contained at least once
            ren = dict(zip(by2, by1))
            for y in b:
                y1 = {ren.get(k, k): v for k, v in y.items()}
                if not any(all(k in r and same(r[k], v) for k, v in y.items()) or
                           all(k in r and same(r[k], v) for k, v in y1.items()) for r in got):
                    self.viol("C16", "full_join", "C16.full_join|full_join|right-item-lost",
                              f"full_join: right item {y!r} not contained in {got!r}")
                    break
            # (3) never merges items with unequal keys: every result item is explainable
            allowed = [dict(x) for x in a]
            allowed += [dict(y) for y in b]
            allowed += [{ren.get(k, k): v for k, v in y.items()} for y in b]
            for x in a:
                for y in b:
                    if all(x[k1] == y[k2] for k1, k2 in zip(by1, by2)):
                        e = dict(x)
                        e.update({k: v for k, v in y.items() if k not in by2})
                        allowed.append(e)
                        e2 = dict(y)
                        e2.update({k: v for k, v in x.items() if k not in by1})
                        allowed.append(e2)
                        e3 = dict(e2)
                        for k2, k1 in ren.items():
                            if k2 in e3 and k2 != k1:
                                e3[k1] = e3.pop(k2)
                        allowed.append(e3)
            for r in got:
                if not any(same(r, e) for e in allowed):
                    self.viol("C16", "full_join", "C16.full_join|full_join|unexplained-result-item",
                              f"full_join: result item {r!r} is neither an operand item nor a merge "
                              f"of two items with equal keys; left={a!r} right={b!r} by={by!r}")
                    break
        ml = self.adopt(op["out"], res, ())
        ml.strong = set()
        ml.weak = set()
        ml.left = set()
        self.check_heap(op)
        info["log"] = self.result_log(op["out"])
        return info

    def op_aggregate(self, op):
        recv = op["t"]
        real = self.lists[recv]
        m = self.model[recv]
        by = op["keys"]
        aggs = [(k, s) for k, s in op["aggs"]]
        undefined = (not by or not defined_keys(m.items, by) or
                     not all(sortable(m.items, k) for k in by))
        fr = {k: make_agg(s) for k, s in aggs}
        res, err = self.call(lambda: real.group_by(*by).aggregate(**fr))
        m.group = tuple(by)
        info = {"involved": [recv], "method_use": True}
        if any(s.get("g") == "raise" for k, s in aggs) and not undefined and m.items:
            self.faults["callback_raise"] = self.faults.get("callback_raise", 0) + 1
            info["raised"] = err is not None
            if err is None:
                self.viol("C16", "fault", "C16.fault|aggregate|callback-exception-swallowed",
                          f"a summary function raised but aggregate returned {plain(res)!r}")
                if isinstance(res, self.L):
                    ml = self.adopt(op["out"], res, m.group)
                    ml.strong, ml.weak, ml.left = set(), {recv}, set()
            self.check_heap(op)
            return info
        if err is not None:
            info["raised"] = True
            info["log"] = {"raised": type(err).__name__}
            if undefined:
                self.probes["undefined_semantics_op"] += 1
            else:
                self.viol("C16", "total", f"C16.raise|aggregate|{type(err).__name__}",
                          f"aggregate raised {err!r} on defined input op={op!r} items={m.items!r}")
            self.check_heap(op)
            return info
        if undefined:
            self.probes["undefined_semantics_op"] += 1
            if isinstance(res, self.L):
                ml = self.adopt(op["out"], res, m.group)
                ml.strong, ml.weak, ml.left = set(), {recv}, set()
            self.check_heap(op)
            return info
        groups = {}
        for x in m.items:
            groups.setdefault(tuple(x[k] for k in by), []).append(x)
        idents = list(groups)
        for key_index in reversed(range(len(by))):
            non = [g for g in idents if g[key_index] is not None]
            nas = [g for g in idents if g[key_index] is None]
            idents = sorted(non, key=lambda g: g[key_index]) + nas
        exp = []
        for ident in idents:
            e = dict(zip(by, ident))
            for k, s in aggs:
                e[k] = make_agg(s)(groups[ident])
            exp.append(e)
        got = [plain(r) for r in list.__iter__(res)] if isinstance(res, list) else res
        if not isinstance(res, self.L):
            self.viol("C16", "type", "C16.type|aggregate|result-not-ListOfDicts", type(res).__name__)
        elif not same(got, exp):
            self.viol("C16", "aggregate", "C16.aggregate|aggregate|summary-differs",
                      f"aggregate by {by!r} {aggs!r}: got {got!r}, reference {exp!r}; items={m.items!r}")
        if isinstance(res, self.L):
            if any(id(r) in self.r2m for r in list.__iter__(res)):
                self.viol("C16", "sharing", "C16.sharing|aggregate|result-shares-items", "")
            ml = self.adopt(op["out"], res, m.group)
            ml.strong, ml.weak, ml.left = set(), {recv}, set()
        self.check_heap(op)
        info["log"] = {"result": got}
        return info

    # -- render observers (C20) ---------------------------------------------

    def op_render(self, op):
        recv = op["t"]
        real = self.lists[recv]
        how = op["how"]
        mi = op.get("max_items")
        m = self.model[recv]
        if m.obs is not False:
            self.probes["render_obsolete"] += 1
        before = (self.di.PRINT_MAX_ITEMS, self.di.DEFAULT_PEEK_ITEMS)

        def go():
            if how == "str":
                return str(real)
            if how == "repr":
                return repr(real)
            if how == "to_string":
                return real.to_string(max_items=mi)
            if how == "print_":
                return real.print_(max_items=mi)
            if how == "to_json":
                return real.to_json()
        res, err = self.call(go)
        info = {"involved": [recv], "method_use": how not in ("str", "repr")}
        if err is not None:
            self.viol("C20", "total", f"C20.raise|lod.{how}|{type(err).__name__}",
                      f"ListOfDicts {how}(max_items={mi}) raised {err!r}; items={m.items!r}")
            info["raised"] = True
        elif how != "print_" and not isinstance(res, str):
            self.viol("C20", "type", f"C20.type|lod.{how}|not-a-string", type(res).__name__)
        if (self.di.PRINT_MAX_ITEMS, self.di.DEFAULT_PEEK_ITEMS) != before:
            self.viol("C20", "sideeffect", f"C20.sideeffect|lod.{how}|globals-changed", "")
        # object unchanged: same item objects in same order, same contents
        rl = list(list.__iter__(real))
        if len(rl) != len(m.items) or any(self.r2m.get(id(r)) is not x for r, x in zip(rl, m.items)):
            self.viol("C20", "sideeffect", f"C20.sideeffect|lod.{how}|list-changed", "")
        for r in self.keep:
            if not same(plain(r), self.r2m[id(r)]):
                self.viol("C20", "sideeffect", f"C20.sideeffect|lod.{how}|item-changed",
                          f"rendering changed item to {plain(r)!r}")
                self.r2m[id(r)].clear()
                self.r2m[id(r)].update(copy.deepcopy(plain(r)))
        info["log"] = {"result": res if isinstance(res, str) else None}
        return info

    def op_print_(self, op):
        return self.op_render(op)


# ---------------------------------------------------------------------------
# Generation

class Gen:

    def __init__(self, rng, prop, world):
        self.rng = rng
        self.prop = prop
        self.w = world
        r = rng
        # swarm configuration
        self.max_len = r.choice([2, 3, 4, 6, 8])
        self.nops = r.choice([6, 10, 16, 24, 40])
        self.fault_rate = r.choice([0, 0, 0.05, 0.12])
        self.ragged = r.choice([0, 0.15, 0.4])
        self.none_rate = r.choice([0, 0.15, 0.35])
        self.nested = r.random() < 0.3
        # tuple-valued entries ((row, col), (year, month)): hashable, orderable, usable as group,
        # sort, unique and join keys; traces carry them in tagged form (freeze/thaw)
        self.tuples = r.random() < 0.25
        groups = {
            "subset": ["filter", "filter_out", "head", "tail", "slice", "drop_na", "sample", "unique"],
            "order": ["sort", "reverse"],
            "algebra": ["append", "extend", "insert", "add", "mul", "copy", "clear"],
            "edit": ["modify", "modify_if", "fill_missing_keys", "unselect", "select", "rename"],
            "join": ["left_join", "inner_join", "semi_join", "anti_join", "full_join"],
            "agg": ["aggregate", "split", "group_by"],
            "copy": ["deepcopy", "copy"],
            "observe": ["pluck", "keys", "len", "getitem", "map"],
            "direct": ["item_set", "list_append", "construct_from", "extend_items"],
            "render": ["render"],
        }
        weights = {"subset": 3, "order": 2, "algebra": 3, "edit": 3, "join": 2, "agg": 1,
                   "copy": 2, "observe": 1, "render": 1, "direct": 1}
        if prop == "C15":
            weights.update(subset=4, order=3, algebra=5, edit=4, join=1)
        elif prop == "C16":
            weights.update(join=8, agg=4, edit=1, algebra=2)
        elif prop == "C17":
            weights.update(edit=5, copy=4, join=3, algebra=4, subset=3)
        elif prop == "C20":
            weights.update(render=8, edit=3)
        # swarm: drop a random subset of groups (never all)
        names = list(groups)
        enabled = [g for g in names if r.random() < 0.75]
        must = {"C15": ["algebra", "subset"], "C16": ["join"], "C17": ["edit", "copy"],
                "C20": ["render"]}.get(prop, [])
        for g in must:
            if g not in enabled:
                enabled.append(g)
        self.table = []
        for g in enabled:
            for name in groups[g]:
                self.table.append((name, weights[g]))
        self.enabled = enabled

    def config(self):
        return {"max_len": self.max_len, "nops": self.nops, "fault_rate": self.fault_rate,
                "ragged": self.ragged, "none_rate": self.none_rate, "nested": self.nested,
                "enabled": self.enabled}

    # -- literals ---------------------------------------------------------

    def value(self, key):
        r = self.rng
        if r.random() < self.none_rate:
            return None
        if key in KEYS_INT:
            return r.choice([-1, 0, 1, 1, 2, 2, 3, 4])
        if key in KEYS_STR:
            return r.choice(["", "x", "x", "y", "zz", "Zz", "long " * 9, "日本語" * 14])
        if key == "n":
            return r.choice([[1, 2], {"z": 1}, [], [{"q": None}]])
        if key == "t":
            return r.choice([(1, 2), (1, 3), (0, 9), (1, 2)])
        return r.choice([0, 1, "x"])

    def item(self):
        r = self.rng
        keys = ["k", "g", "a", "s"] + (["b"] if r.random() < 0.4 else []) + \
            (["n"] if self.nested and r.random() < 0.5 else []) + (["t"] if self.tuples else [])
        d = {}
        for k in keys:
            if k != "k" and r.random() < self.ragged:
                continue
            d[k] = self.value(k)
        return d

    def items(self, n=None):
        r = self.rng
        if n is None:
            n = r.choice([0, 1, 2, 2, 3, self.max_len, r.randint(0, self.max_len)])
        out = [self.item() for _ in range(n)]
        if out and r.random() < 0.3:
            out.append(copy.deepcopy(r.choice(out)))    # duplicates
        return out

    def pred(self):
        r = self.rng
        k = r.choice(KEYS_INT + KEYS_STR)
        kind = r.choice(["eq", "eq", "none", "gt", "has", "const", "first_n"])
        if kind == "first_n":
            return {"p": "first_n", "v": r.choice([0, 1, 2, 3])}
        if kind == "eq":
            return {"p": "eq", "k": k, "v": self.value(k)}
        if kind == "gt":
            return {"p": "gt", "k": r.choice(KEYS_INT), "v": r.choice([0, 1, 2])}
        if kind == "const":
            return {"p": "const", "v": r.random() < 0.5}
        return {"p": kind, "k": k}

    def fn(self):
        r = self.rng
        kind = r.choice(["const", "inc", "copykey", "nkeys"])
        if kind == "const":
            if self.nested and r.random() < 0.3:
                return {"f": "const", "v": r.choice([{"z": 1}, {"q": {"w": [1]}}, [1, {"z": 2}]])}
            return {"f": "const", "v": self.value(r.choice(KEYS_INT + KEYS_STR))}
        if kind == "nkeys":
            return {"f": "nkeys"}
        return {"f": kind, "k": r.choice(KEYS_INT)}

    def fault(self, ncalls):
        if self.rng.random() < self.fault_rate * 4:
            return {"kind": "callback_raise", "at": self.rng.randint(1, max(1, ncalls))}
        return None

    def pick(self, prefer_nonempty=False):
        w = self.w
        hs = sorted(set(w.lists) - w.dropped)
        if not hs:
            return None
        r = self.rng
        if prefer_nonempty:
            ne = [h for h in hs if w.model[h].items]
            if ne and r.random() < 0.85:
                hs = ne
        # bias towards recent handles and towards lists expected obsolete
        if r.random() < 0.25:
            ob = [h for h in hs if w.model[h].obs is True and w.model[h].warned is not True]
            if ob:
                return r.choice(ob)
        if r.random() < 0.5:
            return hs[-1 - min(len(hs) - 1, int(r.random() * 3))]
        return r.choice(hs)

    def common_keys(self, h, among=None):
        items = self.w.model[h].items
        keys = among or (KEYS_INT + KEYS_STR + (KEYS_TUP if self.tuples else []))
        return [k for k in keys if all(k in x for x in items)]

    def join_by(self, a, b):
        r = self.rng
        ca = [k for k in self.common_keys(a) if hashable_vals(self.w.model[a].items, [k])]
        cb = [k for k in self.common_keys(b) if hashable_vals(self.w.model[b].items, [k])]
        both = [k for k in ca if k in cb]
        if r.random() < 0.08:
            return [r.choice(KEYS_ALL)]
        by = []
        n = r.choice([1, 1, 1, 2])
        for _ in range(n):
            if ca and cb and r.random() < 0.3:
                k1, k2 = r.choice(ca), r.choice(cb)
                typed = (k1 in KEYS_INT) == (k2 in KEYS_INT)
                if k1 != k2 and typed:
                    by.append([k1, k2])
                    continue
            if both:
                by.append(r.choice(both))
        seen = []
        out = []
        for x in by:
            k = x if isinstance(x, str) else x[0]
            if k in seen:
                continue
            seen.append(k)
            out.append(x)
        return out or [r.choice(KEYS_INT)]

    # -- next op ------------------------------------------------------------

    def next_op(self):
        w = self.w
        r = self.rng
        live = sorted(set(w.lists) - w.dropped)
        if len(live) >= 8:
            # retire a random handle (the simulated caller drops its reference)
            h = r.choice(live)
            return {"op": "drop", "t": h}
        if not live or (len(live) < 3 and r.random() < 0.4) or r.random() < 0.06:
            return {"op": "new", "out": w.new_handle(), "items": self.items()}
        names = [n for n, wt in self.table]
        wts = [wt for n, wt in self.table]
        name = r.choices(names, wts)[0]
        return getattr(self, "g_" + name)()

    def base(self, name, prefer_nonempty=True, out=True):
        op = {"op": name, "t": self.pick(prefer_nonempty)}
        if out:
            op["out"] = self.w.new_handle()
        return op

    def g_filter(self, name="filter"):
        op = self.base(name)
        r = self.rng
        n = len(self.w.model[op["t"]].items)
        if r.random() < 0.6:
            op["pred"] = self.pred()
            f = self.fault(n)
            if f:
                op["fault"] = f
        else:
            ck = self.common_keys(op["t"])
            ks = r.sample(ck, min(len(ck), r.choice([1, 1, 2]))) if ck and r.random() < 0.92 \
                else [r.choice(KEYS_INT)]
            items = self.w.model[op["t"]].items
            kv = {}
            for k in ks:
                if items and k in items[0] and r.random() < 0.6 and not isinstance(items[0][k], (list, dict)):
                    kv[k] = r.choice(items).get(k)
                else:
                    kv[k] = self.value(k)
            op["kv"] = kv
        return op

    def g_filter_out(self):
        return self.g_filter("filter_out")

    def g_head(self, name="head"):
        op = self.base(name, prefer_nonempty=False)
        n = len(self.w.model[op["t"]].items)
        op["n"] = self.rng.choice([0, 1, max(0, n - 1), n, n + 3, None, 2])
        return op

    def g_tail(self):
        return self.g_head("tail")

    def g_slice(self):
        op = self.base("slice", prefer_nonempty=False)
        r = self.rng
        n = len(self.w.model[op["t"]].items)
        c = [None, 0, 1, -1, n, n + 2, -n - 1, 2]
        op["start"], op["stop"] = r.choice(c), r.choice(c)
        op["stride"] = r.choice([None, None, 1, 2, -1])
        return op

    def g_drop_na(self):
        op = self.base("drop_na")
        op["keys"] = self.rng.sample(KEYS_INT + KEYS_STR, self.rng.choice([0, 1, 1, 2]))
        return op

    def g_sample(self):
        op = self.base("sample")
        n = len(self.w.model[op["t"]].items)
        op["n"] = self.rng.choice([0, 1, n, n + 2, None, max(0, n - 1)])
        op["rseed"] = self.rng.randrange(10**6)
        return op

    def g_unique(self):
        op = self.base("unique", prefer_nonempty=False)
        r = self.rng
        ck = self.common_keys(op["t"])
        if r.random() < 0.15:
            op["keys"] = []
        elif ck and r.random() < 0.92:
            op["keys"] = r.sample(ck, min(len(ck), r.choice([1, 1, 2])))
        else:
            op["keys"] = [r.choice(KEYS_ALL)]
        return op

    def g_sort(self):
        op = self.base("sort", prefer_nonempty=False)
        r = self.rng
        ck = self.common_keys(op["t"])
        if ck and r.random() < 0.92:
            ks = r.sample(ck, min(len(ck), r.choice([1, 1, 2, 3])))
        else:
            ks = [r.choice(KEYS_INT)]
        op["key_dirs"] = [[k, r.choice([1, -1])] for k in ks]
        if r.random() < 0.3 and ck:
            # macro: sort -> a step that changes order or key values -> aggregate by the sort key
            # (group order must come from the data, never from remembered sortedness)
            key = ks[0]
            h1 = op["out"]
            h2, h3 = self.w.new_handle(), self.w.new_handle()
            step = r.choice(["reverse_slice", "modify", "modify"])
            if step == "reverse_slice":
                self.pending.append({"op": "slice", "t": h1, "out": h2, "start": None, "stop": None, "stride": -1})
            else:
                self.pending.append({"op": "modify", "t": h1, "out": h2,
                                     "pairs": [[key, {"f": "nkeys"} if key in KEYS_INT and r.random() < 0.5
                                                else {"f": "const", "v": self.value(key)}]]})
            self.pending.append({"op": "aggregate", "t": h2, "out": h3, "keys": [key],
                                 "aggs": [["n", {"g": "len"}], ["p", {"g": "pluck", "k": r.choice(KEYS_INT)}]]})
        return op

    def g_reverse(self):
        return self.base("reverse")

    def g_copy(self):
        return self.base("copy")

    def g_deepcopy(self):
        return self.base("deepcopy")

    def g_clear(self):
        return self.base("clear")

    def g_append(self):
        op = self.base("append", prefer_nonempty=False)
        op["item"] = self.item()
        return op

    def g_insert(self):
        op = self.base("insert", prefer_nonempty=False)
        n = len(self.w.model[op["t"]].items)
        op["index"] = self.rng.choice([0, 1, n, n, max(0, n - 1), -1, n + 2, -n, n // 2])
        op["item"] = self.item()
        return op

    def g_extend(self):
        op = self.base("extend", prefer_nonempty=False)
        if self.rng.random() < 0.7:
            op["other"] = self.pick()
        else:
            op["items"] = self.items(self.rng.choice([0, 1, 2]))
        return op

    def g_add(self):
        op = self.base("add", prefer_nonempty=False)
        op["other"] = self.pick()
        return op

    def g_mul(self):
        op = self.base("mul", prefer_nonempty=True)
        op["n"] = self.rng.choice([0, 1, 2, 2, 3, -1])
        op["r"] = self.rng.random() < 0.3
        return op

    def g_modify(self):
        op = self.base("modify")
        r = self.rng
        nk = r.choice([1, 1, 2])
        keys = r.sample(KEYS_INT + KEYS_STR + FRESH[:1], nk)
        op["pairs"] = [[k, self.fn()] for k in keys]
        f = self.fault(len(self.w.model[op["t"]].items) * nk)
        if f:
            op["fault"] = f
        return op

    def g_modify_if(self):
        op = self.g_modify()
        op["op"] = "modify_if"
        op["pred"] = self.pred()
        return op

    def g_fill_missing_keys(self):
        op = self.base("fill_missing_keys")
        r = self.rng
        if r.random() < 0.4:
            op["kv"] = {}
        else:
            op["kv"] = {k: self.value(k) for k in r.sample(KEYS_ALL, r.choice([1, 2]))}
        return op

    def g_unselect(self):
        op = self.base("unselect")
        op["keys"] = self.rng.sample(KEYS_ALL + FRESH[:1], self.rng.choice([0, 1, 1, 2]))
        return op

    def g_select(self):
        op = self.base("select")
        op["keys"] = self.rng.sample(KEYS_ALL + FRESH[:1], self.rng.choice([0, 1, 2, 3, 4]))
        return op

    def g_rename(self):
        op = self.base("rename")
        r = self.rng
        items = self.w.model[op["t"]].items
        present = list(dict.fromkeys(itertools.chain(*items))) or ["k"]
        if len(present) >= 2 and r.random() < 0.35:
            a, b = r.sample(present, 2)
            op["to_from"] = [[b, a], [a, b]]           # swap: a permutation of existing names
        else:
            fm = r.choice(present + ["zz9"])
            fresh = [x for x in FRESH if x not in present]
            to = r.choice(fresh) if fresh else "r9"
            op["to_from"] = [[to, fm]]
        return op

    def g_join(self, name):
        op = self.base(name)
        op["other"] = self.pick(prefer_nonempty=True)
        if name in ("left_join", "inner_join") and self.rng.random() < 0.8:
            # merge joins edit the left items: prefer a right operand that shares none of them
            mine = set(map(id, self.w.model[op["t"]].items))
            free = [h for h in sorted(set(self.w.lists) - self.w.dropped)
                    if self.w.model[h].items and not (mine & set(map(id, self.w.model[h].items)))]
            if free:
                op["other"] = self.rng.choice(free)
        op["by"] = self.join_by(op["t"], op["other"])
        return op

    def g_left_join(self):
        return self.g_join("left_join")

    def g_inner_join(self):
        return self.g_join("inner_join")

    def g_semi_join(self):
        return self.g_join("semi_join")

    def g_anti_join(self):
        return self.g_join("anti_join")

    def g_full_join(self):
        r = self.rng
        if r.random() < 0.6:
            # make a right operand whose non-key names are disjoint from the left's
            return self.macro_full_join()
        return self.g_join("full_join")

    def macro_full_join(self):
        r = self.rng
        n = r.choice([0, 1, 2, 3])
        rk = r.choice(["k", "k", "rk"])
        items = []
        for _ in range(n):
            d = {rk: self.value("k"), "w": r.choice([5, 6, 7, None])}
            if r.random() < 0.3:
                del d["w"]
            items.append(d)
        h = self.w.new_handle()
        self.pending = [{"op": "full_join", "t": None, "other": h, "out": None, "by": [["k", rk]] if rk != "k" else ["k"]}]
        return {"op": "new", "out": h, "items": items}

    def g_aggregate(self):
        op = self.base("aggregate")
        r = self.rng
        ck = self.common_keys(op["t"])
        if ck and r.random() < 0.92:
            op["keys"] = r.sample(ck, min(len(ck), r.choice([1, 1, 2])))
        else:
            op["keys"] = [r.choice(KEYS_INT)]
        aggs = []
        for name in r.sample(["n", "t", "p", "f"], r.choice([1, 2])):
            kind = {"n": "len", "t": "sum", "p": "pluck", "f": "first"}[name]
            aggs.append([name, {"g": kind, "k": r.choice(KEYS_INT + KEYS_STR)}])
        if r.random() < self.fault_rate:
            aggs.append(["e", {"g": "raise", "exc": r.choice(["StopIteration", "SimFault"])}])
            op["fault"] = {"kind": "callback_raise", "at": 1}
        op["aggs"] = aggs
        return op

    def g_split(self):
        op = self.base("split", out=False)
        ck = self.common_keys(op["t"])
        op["keys"] = self.rng.sample(ck, min(len(ck), self.rng.choice([1, 2]))) if ck else ["k"]
        return op

    def g_group_by(self):
        op = self.base("group_by", out=False)
        op["keys"] = [self.rng.choice(KEYS_INT)]
        return op

    def g_construct_from(self):
        return self.base("construct_from", prefer_nonempty=True)

    def g_extend_items(self):
        op = self.base("extend_items", prefer_nonempty=False)
        op["other"] = self.pick(prefer_nonempty=True)
        return op

    def g_item_set(self):
        op = self.base("item_set", out=False)
        r = self.rng
        op["index"] = r.randrange(8)
        op["key"] = r.choice(KEYS_INT + KEYS_STR + FRESH[:2])
        op["value"] = self.value(op["key"]) if op["key"] in KEYS_ALL else r.choice([0, 1, "x"])
        if r.random() < 0.4:
            op["via"] = "attr"
        return op

    def g_list_append(self):
        op = self.base("list_append", prefer_nonempty=False, out=False)
        op["item"] = self.item()
        return op

    def g_pluck(self):
        op = self.base("pluck", out=False)
        op["key"] = self.rng.choice(KEYS_ALL)
        op["default"] = self.rng.choice([None, 0, "d"])
        return op

    def g_keys(self):
        return self.base("keys", out=False)

    def g_len(self):
        return self.base("len", out=False)

    def g_getitem(self):
        op = self.base("getitem", out=False)
        n = len(self.w.model[op["t"]].items)
        op["index"] = self.rng.choice([0, -1, n, n - 1, 1])
        return op

    def g_map(self):
        op = self.base("map")
        op["map"] = {"m": self.rng.choice(["value", "dict", "mixed", "identity"]), "k": self.rng.choice(KEYS_INT)}
        return op

    def g_render(self):
        op = self.base("render", out=False, prefer_nonempty=False)
        n = len(self.w.model[op["t"]].items)
        op["how"] = self.rng.choice(["str", "repr", "to_string", "print_", "to_json"])
        op["max_items"] = self.rng.choice([None, 0, 1, n, n + 1, max(0, n - 1)])
        return op


# ---------------------------------------------------------------------------

def _valid(world, op):
    """All handles the op refers to exist (ddmin may have removed creators)."""
    for key in ("t", "other"):
        if key in op and op[key] is not None and (
                op[key] not in world.lists or op[key] in world.dropped):
            return False
    return True


def _run(prop, rng=None, trace=None):
    import dataiter
    world = World(prop, rng)
    saved = (dataiter.PRINT_MAX_ITEMS, dataiter.DEFAULT_PEEK_ITEMS)
    ops_done = []
    skipped = 0
    if trace is None:
        gen = Gen(rng, prop, world)
        gen.pending = []
        config = gen.config()
        peek = rng.choice([3, 3, 1, 5])
        pmax = rng.choice([10, 10, 2, 50])
        config.update(DEFAULT_PEEK_ITEMS=peek, PRINT_MAX_ITEMS=pmax)
        n = gen.nops
    else:
        gen = None
        config = trace["config"]
        n = len(trace["ops"])
    dataiter.DEFAULT_PEEK_ITEMS = config["DEFAULT_PEEK_ITEMS"]
    dataiter.PRINT_MAX_ITEMS = config["PRINT_MAX_ITEMS"]
    try:
        i = 0
        while i < n:
            if gen is not None:
                if gen.pending:
                    op = gen.pending.pop(0)
                    if op.get("t") is None:
                        op["t"] = gen.pick(prefer_nonempty=True)
                        op["out"] = world.new_handle()
                else:
                    op = gen.next_op()
            else:
                op = copy.deepcopy(trace["ops"][i])
            i += 1
            if op["op"] == "drop":
                if op["t"] in world.lists:
                    # the simulated caller drops its reference: a temporary of a method chain
                    # dies for real (items stay alive through the heap table); the handle stays
                    # in the derivation graph of the model
                    world.dropped.add(op["t"])
                    if config.get("really_drop", True):
                        world.gone.add(op["t"])
                        del world.lists[op["t"]]       # no reference cycles: freed by refcount at once
                ops_done.append(op)
                continue
            if not _valid(world, op):
                skipped += 1
                continue
            if "out" in op and op["out"] is not None:
                world.next_handle = max(world.next_handle, op["out"] + 1)
            rec = freeze(op)
            world.execute(thaw(rec))
            ops_done.append(rec)
    finally:
        dataiter.PRINT_MAX_ITEMS, dataiter.DEFAULT_PEEK_ITEMS = saved
    executed = [o for o in ops_done if o["op"] != "drop"]
    nontrivial = len(executed) >= 3 and any(
        o["op"] in EDITING or o["op"] in JOINS or o.get("fault") for o in executed)
    res = kernel.RunResult(
        violations=world.violations,
        steps=len(executed),
        faults=world.faults,
        probes=world.probes,
        opcount=world.opcount,
        digest=kernel.digest(world.log),
        abstract=kernel.digest(world.abstract),
        nontrivial=nontrivial,
        trace={"config": config, "ops": ops_done},
        skipped=skipped,
    )
    return res


def run_seed(seed, prop, tier):
    rng = random.Random(seed)
    return _run(prop, rng=rng)


def replay(trace, prop):
    return _run(prop, trace=trace)
