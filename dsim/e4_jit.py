# -*- coding: utf-8 -*-
"""
E4 - JIT-cache process simulation (DESIGN.md section 4, E4).  Serves C08.

World: one NUMBA_CACHE_DIR (durable state) and a sequence of real interpreter
lifetimes (dsim/e4_worker.py in a subprocess) that share it.  The seed decides
the schedule: which accelerated helper is first used when, in which lifetime,
in the same aggregate() call as which others, against which cache state; and
the faults: cache wipe / rollback / pruning / truncation between lifetimes and
process death at a chosen cache save (before the index write, between index
and data write, after both, or with a torn temporary data file).

Oracle: the same call in the same process with USE_NUMBA=False (the pure
Python path compiles nothing, so it cannot perturb the schedule).
"""

import json
import math
import os
import random
import shutil
import subprocess
import sys

from dsim import kernel
from dsim.kernel import Violation

NAME = "e4"
CHUNK = 1
TASK_TIMEOUT_S = 900
DDMIN_MAX_TESTS = 24
MINIMISE_BUDGET_S = 300
BUDGETS_S = (220, 2400)
RUNS = {"C08": (200, 1500)}
RULE = ("one run = one world: 1..3 interpreter lifetimes sharing one Numba cache directory, each "
        "with 1..5 aggregate() calls of 1..3 helpers over seeded frames (<=12 rows, 1..5 groups, "
        "unsorted, NA placement none/some/whole-group/whole-column), seeded cache faults between "
        "lifetimes and a seeded kill at a cache save; non-trivial iff >=2 distinct (kernel, "
        "signature) pairs are first-used in some order; distinct = distinct sequence of "
        "(lifetime boundary, cache setting, fault, ordered first uses)")
STUBS = [
    "process death: os._exit(137) injected from the worker harness inside numba's cache save "
    "(IndexDataCacheFile.save/_save_index/_save_data wrapped in dsim/e4_worker.py, not in /repo)",
    "cache loss: the simulator deletes, truncates or rolls back .nbi/.nbc files between lifetimes",
]
REAL_EXTRA = ["Numba 0.60 + llvmlite (real JIT compilation and real on-disk cache)",
              "one real CPython interpreter process per simulated lifetime"]
ASSUMPTIONS = {
    "C08": ["helper x dtype domain = combinations both paths accept (datetime columns: no "
            "mean/median/quantile/std/var/sum)",
            "floats compared with rtol=1e-9, atol=1e-12 (rtol=1e-4 for float32/float16 input, where one "
            "path may accumulate in the input's precision); everything else exactly, incl. result dtype",
            "under an injected cache fault or crash the accelerated call may raise (fail loudly) or "
            "recompile; it must never return different data",
            "a lifetime in which dataiter disabled Numba at import (corrupt cache index) is skipped",
            "bit flips inside compiled code are not injected (Numba has no checksums)"],
}

HELPERS_ALL = ["all", "any", "count", "count_unique", "first", "last", "nth", "min", "max",
               "mode", "mean", "median", "quantile", "std", "var", "sum"]
HELPERS_DT = ["all", "any", "count", "count_unique", "first", "last", "nth", "min", "max", "mode"]
DTYPES_QUICK = ["bool", "int64", "float64", "datetime64[D]", "datetime64[us]"]
# narrower widths reach dataiter through Parquet/NPZ/pandas; the accelerated path widens them
DTYPES_NARROW_QUICK = ["int32", "float32"]
DTYPES_NARROW_THOROUGH = ["int32", "float32", "uint8", "int16", "float16"]
NARROW = {"int8", "int16", "int32", "uint8", "uint16", "uint32", "float32", "float16"}
KERNEL = {"all": "generic[all]", "any": "generic[any]", "count": "generic[len]",
          "count_unique": "count_unique_apply", "first": "nth_apply", "last": "nth_apply",
          "nth": "nth_apply", "min": "generic[amin]", "max": "generic[amax]", "mode": "mode_apply",
          "mean": "generic[mean]", "median": "generic[median]", "quantile": "quantile_apply",
          "std": "generic[std]", "var": "generic[var]", "sum": "generic[sum]"}
NO_DROP_NA = ("all", "any")


# ---------------------------------------------------------------------------
# Generation (pure function of the run PRNG; no feedback from execution)

def gen_values(r, dtype, n, groups, na_mode):
    vals = gen_values_raw(r, dtype, n)
    if r.random() < 0.4 and n >= 3:
        # low cardinality: ties, duplicates and repeated values in another order
        pool = list(dict.fromkeys(vals))[:r.choice([2, 3])]
        vals = [r.choice(pool) for _ in range(n)]
    return apply_na(r, dtype, vals, n, groups, na_mode)


def gen_values_raw(r, dtype, n):
    vals = []
    for i in range(n):
        if dtype == "bool":
            vals.append(r.random() < 0.5)
        elif dtype.startswith("uint"):
            vals.append(r.choice([0, 1, 1, 2, 3, 5, 7, 7, 100]))
        elif dtype.startswith("int"):
            vals.append(r.choice([0, 1, 1, 2, 3, 5, -4, 7, 7, 100]))
        elif dtype.startswith("float"):
            vals.append(r.choice([0.0, -0.0, 0.5, 1.5, 2.5, 2.5, -3.25, 1e6, 7.0, 7.0] +
                                 ([float("inf"), float("-inf"), 1e17] if r.random() < 0.1 else [])))
        elif dtype == "datetime64[D]":
            vals.append(r.choice([0, 5, 5, 10, 12, 365, -400, 19000]))
        else:
            vals.append(r.choice([0, 3, 3, 5, 10**6, 10**12, -10**9, 86400 * 10**6]))
    return vals


def apply_na(r, dtype, vals, n, groups, na_mode):
    if dtype == "bool" or "int" in dtype:
        return vals
    if na_mode == "some":
        for i in range(n):
            if r.random() < 0.35:
                vals[i] = None
    elif na_mode == "group":
        g = r.choice(groups)
        for i in range(n):
            if groups[i] == g or r.random() < 0.15:
                vals[i] = None
    elif na_mode == "all":
        vals = [None] * n
    return vals


def gen_helper(r, dtype, hid, names, alphabet=None, keep_na=False):
    fns = HELPERS_DT if dtype.startswith("datetime") else HELPERS_ALL
    if alphabet:
        fns = [f for f in fns if f in alphabet] or fns
    fn = r.choice(fns)
    kw = {}
    if fn not in NO_DROP_NA and r.random() < 0.8:
        kw["drop_na"] = r.random() < 0.5
    if fn not in NO_DROP_NA and keep_na:
        # swarm: worlds in which missing values always take part in the computation
        kw["drop_na"] = False
    if fn == "nth":
        kw["index"] = r.choice([0, 1, -1, 2, -2, 3, -4])
    if fn == "quantile":
        kw["q"] = r.choice([0.0, 0.25, 0.5, 0.9, 1.0])
    if fn in ("std", "var") and r.random() < 0.25:
        kw["ddof"] = 1
    name = "y%d" % len(names)
    names.append(name)
    h = {"name": name, "fn": fn, "col": "x", "kwargs": kw, "id": hid, "dtype": dtype}
    if fn == "count" and r.random() < 0.4:
        h["col"] = None             # di.count(): row count through the internal group column
        h["kwargs"] = {}
    return h


def gen_call(r, cfg, hid_counter, pool):
    n = r.choice([1, 2, 3, 5, 7, 9, 12])
    ngroups = r.choice([1, 2, 3, 5])
    groups = [r.randrange(ngroups) for _ in range(n)]
    dtype = r.choice(cfg["dtypes"])
    na_mode = r.choice(["none", "some", "some", "group", "all"])
    call = {"ev": "call", "g": groups,
            "cols": {"x": {"dtype": dtype, "values": gen_values(r, dtype, n, groups, na_mode)}},
            "helpers": [], "dtype": dtype, "na_mode": na_mode}
    dtype2 = None
    if r.random() < cfg.get("two_columns", 0):
        # a second value column of another type: kernels for two signatures are first used
        # inside one aggregate() call
        dtype2 = r.choice(cfg["dtypes"])
        call["cols"]["z"] = {"dtype": dtype2,
                             "values": gen_values(r, dtype2, n, groups, r.choice(["none", "some", "group"]))}
    names = []
    for _ in range(r.choice(cfg["helpers_per_call"])):
        if dtype2 is not None and r.random() < 0.5:
            hid_counter[0] += 1
            h = gen_helper(r, dtype2, hid_counter[0], names, cfg.get("helper_alphabet"), cfg.get("keep_na"))
            if h["col"] is not None:
                h["col"] = "z"
            call["helpers"].append(h)
            continue
        if pool and r.random() < cfg["reuse_rate"]:
            # reuse an earlier helper *object* on a frame of possibly another dtype
            old = r.choice(pool)
            ok = old["fn"] in (HELPERS_DT if dtype.startswith("datetime") else HELPERS_ALL)
            if ok:
                h = dict(old)
                h["dtype"] = dtype
                h["name"] = "y%d" % len(names)
                names.append(h["name"])
                h["reuse"] = True
                call["helpers"].append(h)
                continue
        hid_counter[0] += 1
        h = gen_helper(r, dtype, hid_counter[0], names, cfg.get("helper_alphabet"), cfg.get("keep_na"))
        call["helpers"].append(h)
        pool.append(h)
    if r.random() < cfg["toggle_rate"]:
        call["accelerated"] = False
    return call


def gen_world(rng, tier):
    r = rng
    dtypes = r.sample(DTYPES_QUICK, r.choice([1, 2, 3, 5]))
    if r.random() < 0.2:
        dtypes.append(r.choice(DTYPES_NARROW_THOROUGH if tier == "thorough" else DTYPES_NARROW_QUICK))
    cfg = {
        "dtypes": dtypes,
        "helpers_per_call": r.choice([[1], [1, 2], [1, 2, 3], [2, 3]]),
        "reuse_rate": r.choice([0, 0.3, 0.6]),
        "two_columns": r.choice([0, 0, 0.5]),
        "poison_rate": r.choice([0, 0, 0.2]),
        "toggle_rate": r.choice([0, 0, 0.15]),
        "nlifetimes": r.choice([1, 2, 2, 3]),
        "fault_world": r.random() < 0.55,
        # swarm: many worlds use a small helper alphabet so that the same few kernels meet
        # each other in every order, in one call and across calls
        "helper_alphabet": r.choice([None, None, r.sample(HELPERS_ALL, 2), r.sample(HELPERS_ALL, 3),
                                     r.sample(HELPERS_ALL, 4)]),
        # "twin": the accelerated history and the pure-Python history run in two separate
        # processes (the property's formulation: same history under either setting);
        # "inline": both paths alternate inside one process (runtime switching)
        "oracle": r.choice(["twin", "twin", "inline"]),
        # swarm knobs for state that survives from one frame to the next: how often the caller
        # keeps its helper objects for the following frames, and whether missing values are kept
        "macro_rate": r.choice([0.4, 0.4, 0, 1.0]),
        "keep_na": r.random() < 0.3,
    }
    if r.random() < 0.25:
        # floating-point worlds: the only type where NA, rounding and compile flags all matter
        cfg["dtypes"] = r.choice([["float64"], ["float64", "int64"], ["float64", "float32"]])
    ops = []
    hid = [0]
    for li in range(cfg["nlifetimes"]):
        boot = {"ev": "boot", "use_cache": r.random() < 0.8, "crash": None}
        pool = []
        ncalls = r.choice([1, 2, 3, 4, 5])
        if cfg["fault_world"]:
            if li > 0 and r.random() < 0.6:
                kind = r.choice(["wipe", "rollback", "prune", "truncate", "truncate_index"])
                ops.append({"ev": "cache_fault", "kind": kind, "pick": r.random(), "frac": r.random()})
            if boot["use_cache"] and r.random() < 0.35:
                boot["crash"] = {"save": r.choice([1, 2, 3, 4, 5, 6, 8, 10, 12]),
                                 "phase": r.choice(["before_index", "between", "after_data",
                                                    "torn_data"])}
        ops.append(boot)
        for _ in range(ncalls):
            if r.random() < cfg.get("poison_rate", 0):
                # fault in the history: an aggregation over an object column with unhashable /
                # unorderable cells fails on either path; whatever it leaves behind must not
                # influence later calls
                n = r.choice([2, 3, 5])
                hid[0] += 1
                ops.append({"ev": "call", "g": [0] * n if r.random() < 0.5 else [r.randrange(2) for _ in range(n)],
                            "dtype": "object",
                            "na_mode": "none",
                            # hashable cells first: the failure happens half-way through a group
                            "cols": {"x": {"dtype": "object",
                                           "values": (["a", "a"] + [[i, "u"] for i in range(n - 2)])
                                           if n > 2 else ["a", [0, "u"]]}},
                            "helpers": [{"name": "y0", "fn": r.choice(["mode", "count_unique", "max", "sum"]),
                                         "col": "x", "kwargs": {}, "id": hid[0], "dtype": "object"}]})
            c = gen_call(r, cfg, hid, pool)
            if ops and ops[-1].get("dtype") == "object" and ops[-1]["ev"] == "call" and c["helpers"]:
                # the call right after a failed aggregation uses the same helper kind
                fn = ops[-1]["helpers"][0]["fn"]
                if fn in (HELPERS_DT if c["dtype"].startswith("datetime") else HELPERS_ALL):
                    c["helpers"][0] = dict(c["helpers"][0], fn=fn, kwargs={}, col="x", dtype=c["dtype"])
            ops.append(c)
            if r.random() < cfg["macro_rate"] and "z" not in c["cols"]:
                if c["na_mode"] != "none" and r.random() < 0.6:
                    # start the macro from a complete frame
                    c["na_mode"] = "none"
                    c["cols"]["x"]["values"] = gen_values(r, c["dtype"], len(c["g"]), c["g"], "none")
                # macro: the caller keeps the helper objects and applies them to the next frame of
                # the same type whose missing-value pattern differs (state remembered by a helper
                # closure from the previous frame must not matter)
                n = len(c["g"])
                na2 = "some" if c["na_mode"] in ("none",) else "none"
                c2 = {"ev": "call", "g": list(c["g"]), "dtype": c["dtype"], "na_mode": na2,
                      "cols": {"x": {"dtype": c["dtype"],
                                     "values": gen_values(r, c["dtype"], n, c["g"], na2)}},
                      "helpers": [dict(h, reuse=True) for h in c["helpers"]]}
                ops.append(c2)
                # ... and back, so that every macro contains a complete -> missing transition
                c3 = {"ev": "call", "g": list(c["g"]), "dtype": c["dtype"], "na_mode": c["na_mode"],
                      "cols": {"x": {"dtype": c["dtype"],
                                     "values": gen_values(r, c["dtype"], n, c["g"],
                                                          "some" if na2 == "none" else "none")}},
                      "helpers": [dict(h, reuse=True) for h in c["helpers"]]}
                ops.append(c3)
    return {"config": cfg, "ops": ops}


# ---------------------------------------------------------------------------
# Execution

def scratch_root():
    root = os.environ.get("DSIM_SCRATCH") or "/tmp"
    return root


def cache_files(cache):
    """Relative paths of all regular files below the cache root (numba nests one directory)."""
    out = []
    for base, dirs, files in os.walk(cache):
        dirs.sort()
        for f in sorted(files):
            out.append(os.path.relpath(os.path.join(base, f), cache))
    return sorted(out)


def list_cache(cache):
    out = []
    for name in cache_files(cache):
        name = os.path.basename(name)
        if ".tmp." in name:
            name = name.split(".tmp.")[0] + ".tmp.*"
        out.append(name)
    return out


def wipe(cache):
    for f in cache_files(cache):
        os.unlink(os.path.join(cache, f))


def apply_cache_fault(cache, snapshots, ev, faults):
    kind = ev["kind"]
    files = cache_files(cache)
    fired = False
    if kind == "wipe":
        wipe(cache)
        fired = bool(files)
    elif kind == "rollback":
        if snapshots:
            snap = snapshots[int(ev["pick"] * len(snapshots)) % len(snapshots)]
            shutil.rmtree(cache)
            shutil.copytree(snap, cache)
            fired = True
    elif kind == "prune":
        for j, f in enumerate(files):
            # deterministic pseudo-random subset from the two literals
            if math.fmod(ev["pick"] * 7919 + j * ev["frac"] * 104729 + j * 0.37, 1.0) < 0.4:
                os.unlink(os.path.join(cache, f))
                fired = True
    elif kind in ("truncate", "truncate_index"):
        want = ".nbi" if kind == "truncate_index" else ".nbc"
        cand = [f for f in files if f.endswith(want)]
        if cand:
            f = cand[int(ev["pick"] * len(cand)) % len(cand)]
            path = os.path.join(cache, f)
            size = os.path.getsize(path)
            with open(path, "r+b") as fh:
                fh.truncate(int(size * ev["frac"]))
            fired = True
    if fired:
        faults["cache_" + kind] = faults.get("cache_" + kind, 0) + 1
    return fired


def run_lifetime(cache, boot, calls, timeout=600, mode="both"):
    spec = {"use_cache": boot.get("use_cache", True), "crash": boot.get("crash"), "calls": calls,
            "mode": mode}
    if mode == "ref":
        spec["use_cache"] = False
        spec["crash"] = None
    env = dict(os.environ)
    env["NUMBA_CACHE_DIR"] = cache
    env["PYTHONPATH"] = os.environ.get("DSIM_REPO", "/repo") + ":" + kernel.VERIF_DIR
    env["PYTHONHASHSEED"] = "0"
    env.pop("DATAITER_USE_NUMBA", None)
    env["NUMBA_NUM_THREADS"] = "1"
    worker = os.path.join(kernel.VERIF_DIR, "dsim", "e4_worker.py")
    try:
        p = subprocess.run([sys.executable, worker], input=json.dumps(spec), capture_output=True,
                           text=True, env=env, timeout=timeout)
        rc, out, err = p.returncode, p.stdout, p.stderr
    except subprocess.TimeoutExpired as e:
        rc, out, err = -999, (e.stdout or ""), "timeout"
        if isinstance(out, bytes):
            out = out.decode("utf-8", "replace")
    events = []
    for line in out.splitlines():
        if line.startswith("{"):
            try:
                events.append(json.loads(line))
            except ValueError:
                pass
    return rc, events, err


def close(a, b, narrow=False):
    if isinstance(a, float) and isinstance(b, float):
        if narrow:
            # float32/float16 input: one path may accumulate in the input's precision
            return math.isclose(a, b, rel_tol=1e-4, abs_tol=1e-6)
        return math.isclose(a, b, rel_tol=1e-9, abs_tol=1e-12)
    return type(a) is type(b) and a == b


def compare(call, rec, lifetime_faulty, world_faulty):
    """Return list of (sig, detail)."""
    out = []
    ref, acc = rec.get("ref") or {}, rec.get("acc") or {}
    if "skipped" in acc:
        return out
    helpers = {h["name"]: h for h in call["helpers"]}
    dtype = call["dtype"]
    fns = "+".join(sorted(set(h["fn"] for h in call["helpers"])))
    if "error" in ref and "error" in acc:
        return out
    used = {(h.get("dtype") or call["dtype"]) for h in call["helpers"]} | {call["dtype"]}
    if "error" in acc and "float16" in used and acc["error"] == "NotImplementedError":
        out.append(("C08.unsupported|float16|accelerated-path-raises-NotImplementedError",
                    f"float16 column: USE_NUMBA=True raises NotImplementedError ({acc['msg'][:60]}), "
                    f"the Python path returns {ref.get('frame')}"))
        return out
    if "error" in acc:
        if lifetime_faulty:
            return out          # may fail loudly under an injected cache fault
        out.append((f"C08.raise|{fns}|{dtype}|accelerated-path-raises-{acc['error']}",
                    f"USE_NUMBA=True raised {acc['error']}: {acc['msg'][:120]} but the Python path "
                    f"returned {ref.get('frame')}"))
        return out
    if "error" in ref:
        out.append((f"C08.raise|{fns}|{dtype}|python-path-raises-{ref['error']}",
                    f"USE_NUMBA=False raised {ref['error']}: {ref['msg'][:120]} but the accelerated "
                    f"path returned {acc.get('frame')}"))
        return out
    rf, af = ref["frame"], acc["frame"]
    if list(rf) != list(af):
        out.append((f"C08.columns|{fns}|{dtype}", f"columns {list(rf)} vs {list(af)}"))
        return out
    for name in rf:
        h = helpers.get(name)
        fn = h["fn"] if h else "group-column"
        kw = h.get("kwargs", {}) if h else {}
        dn = kw.get("drop_na", "default")
        a, b = rf[name], af[name]
        dtype = (h or {}).get("dtype") or call["dtype"]
        where = f"{fn}|{dtype}|drop_na={dn}"
        if a["dtype"] != b["dtype"]:
            same_vals = len(a["values"]) == len(b["values"]) and all(
                (x in ("NaN", "NaT", None) and y in ("NaN", "NaT", None)) or
                (x in ("inf", "-inf") and x == y) or
                (isinstance(x, (int, float)) and isinstance(y, (int, float)) and
                 not isinstance(x, bool) and not isinstance(y, bool) and
                 math.isclose(float(x), float(y), rel_tol=1e-4, abs_tol=1e-6))
                for x, y in zip(a["values"], b["values"]))
            if dtype in NARROW and same_vals:
                out.append((f"C08.dtype-width|{dtype}",
                            f"{fn}({dtype}) result type {a['dtype']} (Python) vs {b['dtype']} (Numba): "
                            f"the accelerated path widens results of a {dtype} column; values "
                            f"{a['values']} vs {b['values']}"))
                continue
            out.append((f"C08.dtype|{where}", f"{fn}({dtype}) result dtype {a['dtype']} (Python) vs "
                        f"{b['dtype']} (Numba); values {a['values']} vs {b['values']}"))
            continue
        if len(a["values"]) != len(b["values"]):
            out.append((f"C08.length|{where}", f"{a['values']} vs {b['values']}"))
            continue
        na_a = [v in ("NaN", "NaT", None) for v in a["values"]]
        na_b = [v in ("NaN", "NaT", None) for v in b["values"]]
        colname = (h or {}).get("col") or "x"
        has_inf = any(isinstance(v, float) and math.isinf(v) for v in call["cols"].get(colname, {}).get("values", []))
        if fn == "quantile" and has_inf and len(a["values"]) == len(b["values"]) and all(
                close(x, y, dtype in NARROW) or (x == "NaN" and y in ("inf", "-inf"))
                for x, y in zip(a["values"], b["values"])):
            out.append(("C08.inf|quantile|interpolation-between-infinities",
                        f"quantile({dtype}, {kw}) on a group containing +-inf: NumPy interpolates inf-inf "
                        f"to NaN, Numba's np.quantile returns the infinity: Python {a['values']} vs Numba "
                        f"{b['values']}; x={call['cols'][colname]['values']} g={call['g']}"))
            continue
        if na_a != na_b:
            out.append((f"C08.na|{where}", f"{fn}({dtype}, {kw}) missing positions differ: Python "
                        f"{a['values']} vs Numba {b['values']}; x={call['cols'][(h or {}).get('col') or 'x']['values']} "
                        f"g={call['g']}"))
            continue
        if not all(close(x, y, dtype in NARROW) for x, y in zip(a["values"], b["values"])):
            out.append((f"C08.values|{where}", f"{fn}({dtype}, {kw}) values differ: Python "
                        f"{a['values']} vs Numba {b['values']}; x={call['cols'][(h or {}).get('col') or 'x']['values']} "
                        f"g={call['g']}"))
    return out


_world_counter = [0]


def execute(trace, prop="C08"):
    ops = trace["ops"]
    _world_counter[0] += 1
    root = os.path.join(scratch_root(), f"e4-{os.getpid()}-{_world_counter[0]}")
    cache = os.path.join(root, "cache")
    os.makedirs(cache, exist_ok=True)
    violations = []
    faults = {}
    probes = {"warm_cache_load": 0, "cold_compile": 0, "lifetime_killed": 0,
              "numba_disabled_at_boot": 0, "accelerated_raise_under_fault": 0,
              "helper_object_reused": 0, "two_helpers_one_call": 0, "runtime_toggle": 0,
              "whole_group_na": 0, "twin_lifetimes": 0}
    log = []
    first_use_pairs = set()
    abstract = []
    snapshots = []
    # split into lifetimes
    lifetimes = []
    cur = None
    pending_faults = []
    for idx, ev in enumerate(ops):
        if ev["ev"] == "cache_fault":
            pending_faults.append(ev)
        elif ev["ev"] == "boot":
            cur = {"boot": ev, "calls": [], "idx": [], "pre": pending_faults}
            pending_faults = []
            lifetimes.append(cur)
        elif ev["ev"] == "call":
            if cur is None:
                cur = {"boot": {"ev": "boot", "use_cache": True, "crash": None}, "calls": [],
                       "idx": [], "pre": pending_faults}
                pending_faults = []
                lifetimes.append(cur)
            cur["calls"].append(ev)
            cur["idx"].append(idx)
    ncalls = 0
    world_faulty = False
    cache_dirty = False       # some fault has touched the durable state
    try:
        for li, lt in enumerate(lifetimes):
            for f in lt["pre"]:
                if apply_cache_fault(cache, snapshots, f, faults):
                    cache_dirty = True
                abstract.append(("fault", f["kind"]))
            boot = lt["boot"]
            before = set(list_cache(cache))
            calls = [{k: c[k] for k in ("g", "cols", "helpers", "accelerated") if k in c}
                     for c in lt["calls"]]
            twin = trace.get("config", {}).get("oracle") == "twin"
            rc, events, err = run_lifetime(cache, boot, calls, mode="acc" if twin else "both")
            after = list_cache(cache)
            if twin:
                # the same history with USE_NUMBA off, in its own process and private cache dir
                refcache = os.path.join(root, f"refcache{li}")
                os.makedirs(refcache, exist_ok=True)
                rc2, events2, err2 = run_lifetime(refcache, boot, calls, mode="ref")
                if rc2 != 0:
                    raise RuntimeError(f"reference twin exit {rc2}: {err2[-500:]}")
                refs = {e["i"]: e.get("ref") for e in events2 if e["ev"] == "call"}
                for e in events:
                    if e["ev"] == "call":
                        e["ref"] = refs.get(e["i"])
                probes["twin_lifetimes"] += 1
            crash = boot.get("crash")
            bootev = next((e for e in events if e["ev"] == "boot"), None)
            ended = any(e["ev"] == "end" for e in events)
            abstract.append(("boot", boot.get("use_cache"), (crash or {}).get("phase")))
            lifetime_faulty = cache_dirty or bool(crash)
            if rc == 137 and crash:
                faults["kill_" + crash["phase"]] = faults.get("kill_" + crash["phase"], 0) + 1
                probes["lifetime_killed"] += 1
                cache_dirty = True
            elif rc == -999:
                raise RuntimeError("lifetime timed out")
            elif rc != 0:
                if bootev is None and cache_dirty:
                    # import of dataiter itself failed loudly on a damaged cache: allowed
                    probes["numba_disabled_at_boot"] += 1
                else:
                    raise RuntimeError(f"worker exit {rc}: {err[-500:]}")
            if bootev is not None and not bootev["numba"]:
                probes["numba_disabled_at_boot"] += 1
                if not cache_dirty:
                    violations.append(Violation(
                        prop, "boot", "C08.boot|numba-disabled-without-fault", lt["idx"][0] if lt["idx"] else 0,
                        f"dataiter disabled Numba at import on an undamaged cache: {bootev.get('stdout')}"))
            seen_this_life = []
            for e in events:
                if e["ev"] != "call":
                    continue
                call = lt["calls"][e["i"]]
                ncalls += 1
                if len(call["helpers"]) >= 2:
                    probes["two_helpers_one_call"] += 1
                if any(h.get("reuse") for h in call["helpers"]):
                    probes["helper_object_reused"] += 1
                if call.get("accelerated") is False:
                    probes["runtime_toggle"] += 1
                if call.get("na_mode") == "group":
                    probes["whole_group_na"] += 1
                if call.get("accelerated", True) and bootev and bootev["numba"]:
                    for h in call["helpers"]:
                        if h["fn"] in ("std", "var") and h.get("kwargs", {}).get("ddof"):
                            continue
                        if (h.get("dtype") or call["dtype"]) == "object":
                            continue        # not eligible for acceleration: no kernel is compiled
                        ks = (KERNEL[h["fn"]], h.get("dtype") or call["dtype"])
                        if ks not in seen_this_life:
                            for prev in seen_this_life:
                                first_use_pairs.add((prev, ks))
                            seen_this_life.append(ks)
                            abstract.append(("first", ks))
                for sig, detail in compare(call, e, lifetime_faulty, world_faulty):
                    violations.append(Violation(prop, "equal", sig, lt["idx"][e["i"]], detail))
                acc = e.get("acc") or {}
                if "error" in acc and lifetime_faulty and "error" not in (e.get("ref") or {}):
                    probes["accelerated_raise_under_fault"] += 1
                log.append({"call": e["i"], "lifetime": li, "ref": e.get("ref"), "acc": e.get("acc")})
            new_files = [f for f in after if f not in before and ".tmp." not in f]
            if boot.get("use_cache"):
                if new_files:
                    probes["cold_compile"] += 1
                elif events and before:
                    probes["warm_cache_load"] += 1
            log.append({"lifetime": li, "rc": rc if rc in (0, 137) else "other", "cache": after,
                        "numba": bootev["numba"] if bootev else None, "ended": ended})
            # snapshot for later rollback faults
            snap = os.path.join(root, f"snap{li}")
            shutil.copytree(cache, snap)
            snapshots.append(snap)
    finally:
        shutil.rmtree(root, ignore_errors=True)
    nontrivial = len({x[1] for x in abstract if x[0] == "first"}) >= 2
    return kernel.RunResult(
        violations=violations,
        steps=ncalls,
        faults=faults,
        probes=probes,
        opcount={"lifetimes": len(lifetimes), "calls": ncalls},
        digest=kernel.digest(log),
        abstract=kernel.digest(abstract),
        nontrivial=nontrivial,
        trace=trace,
        pairs=sorted(first_use_pairs),
    )


def run_seed(seed, prop, tier):
    rng = random.Random(seed)
    trace = gen_world(rng, tier)
    return execute(trace, prop)


def replay(trace, prop):
    return execute(trace, prop)


def simplify_ops(ops, fires):
    """Helper-level shrinking: drop helpers inside calls, then shrink rows."""
    ops = [dict(o) for o in ops]
    budget = 30
    for i, o in enumerate(ops):
        if o["ev"] != "call":
            continue
        j = 0
        while len(o["helpers"]) > 1 and j < len(o["helpers"]) and budget > 0:
            cand = [dict(x) for x in ops]
            cand[i] = dict(o, helpers=o["helpers"][:j] + o["helpers"][j + 1:])
            budget -= 1
            if fires(cand):
                ops = cand
                o = ops[i]
            else:
                j += 1
    return ops


def extra_coverage(total, prop):
    pairs = set(total.get("pairs", ()))
    kernels = set()
    for a, b in pairs:
        kernels.add(a)
        kernels.add(b)
    universe = len(set(KERNEL.values())) * (len(DTYPES_QUICK) + len(DTYPES_NARROW_THOROUGH))
    return {
        "lifetimes": total.get("opcount", {}).get("lifetimes", 0),
        "ordered_first_use_pairs_covered": len(pairs),
        "ordered_first_use_pairs_universe": universe * (universe - 1),
        "kernel_signatures_seen": len(kernels),
        "kernel_signatures_universe": universe,
        "states_measure": "distinct ordered pairs (kernel-signature A first used before "
                          "kernel-signature B in the same lifetime)",
    }
