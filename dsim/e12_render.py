# -*- coding: utf-8 -*-
"""
C20 runs on both history machines: two runs out of three on E1 (DataFrame,
Vector, GeoJSON rendering between frame operations), one out of three on E2
(ListOfDicts rendering between list operations, incl. obsolete lists).
"""

import random

from dsim import e1_frames, e2_lod

NAME = "e12"
CHUNK = 20
RUNS = {"C20": (12000, 600000)}
RULE = ("E1 histories (2/3 of the runs): " + e1_frames.RULE + " || E2 histories (1/3): " + e2_lod.RULE +
        " || render observers are scheduled between the other operations with seeded max_rows/"
        "max_width/truncate_width/max_elements/max_items, COLUMNS and PRINT_* settings")
STUBS = sorted(set(e1_frames.STUBS + e2_lod.STUBS))
ASSUMPTIONS = {"C20": e1_frames.ASSUMPTIONS["C20"] + e2_lod.ASSUMPTIONS["C20"]}


def run_seed(seed, prop, tier):
    if seed % 3 == 0:
        res = e2_lod._run(prop, rng=random.Random(seed))
        res["trace"]["engine"] = "e2"
    else:
        res = e1_frames._run(prop, rng=random.Random(seed))
        res["trace"]["engine"] = "e1"
    return res


def replay(trace, prop):
    if trace.get("engine") == "e2":
        return e2_lod._run(prop, trace=trace)
    return e1_frames._run(prop, trace=trace)
