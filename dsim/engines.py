# -*- coding: utf-8 -*-
import importlib

_ENGINES = {
    "e1": "dsim.e1_frames",
    "e2": "dsim.e2_lod",
    "e3": "dsim.e3_storage",
    "e4": "dsim.e4_jit",
    "e12": "dsim.e12_render",
}

PROPERTY_ENGINE = {
    "C01": "e1", "C06": "e1", "C09": "e1", "C20": "e12",
    "C15": "e2", "C16": "e2", "C17": "e2",
    "C12": "e3", "C14": "e3", "C18": "e3",
    "C08": "e4",
}


def get(name):
    return importlib.import_module(_ENGINES[name])
