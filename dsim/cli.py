# -*- coding: utf-8 -*-
import argparse
import os
import sys


def main(argv=None):
    ap = argparse.ArgumentParser(prog="check")
    ap.add_argument("property", help="property id (C01...) or 'selftest'")
    ap.add_argument("--tier", default=os.environ.get("VERIF_TIER") or "quick",
                    choices=["quick", "thorough"])
    ap.add_argument("--replay", default=None)
    ap.add_argument("--engine", default=None)
    ap.add_argument("--prop", default=None)
    ap.add_argument("--n", type=int, default=10)
    ap.add_argument("--only", default=None)
    args = ap.parse_args(argv)
    from dsim import kernel, engines
    if args.replay:
        return kernel.replay_file(args.replay)
    if args.property == "selftest":
        from dsim import selftest
        return selftest.main(args.tier, args.only.split(",") if args.only else None)
    if args.property == "selftest-worker":
        from dsim import selftest
        selftest.worker(args.prop, args.engine, args.n)
        return 0
    prop = args.property
    if prop not in engines.PROPERTY_ENGINE:
        print(f"property {prop} is not claimed (see MANIFEST.json not_applicable)")
        return 2
    ename = args.engine or engines.PROPERTY_ENGINE[prop]
    if ename != "e4":
        # engines other than the JIT simulation never need Numba: skip its import
        os.environ["DATAITER_USE_NUMBA"] = "0"
    engine = engines.get(ename)
    nruns = engine.RUNS[prop][0 if args.tier == "quick" else 1]
    if hasattr(engine, "main_check"):
        return engine.main_check(prop, args.tier, nruns)
    return kernel.run_check(prop, ename, args.tier, nruns)
