# -*- coding: utf-8 -*-
"""
E3 - storage simulation (DESIGN.md section 4, E3).  Serves C12, C14, C18.

World: a scratch directory (the "disk") and a reference model
path -> {format, options, logical document, state}.  One run is a seeded
history of writes (fresh paths, nested directories, overwrites of longer or
shorter files), reads through every route (class method, module alias,
column/key restrictions, dtype/type maps), truncations (torn files) and
injected I/O faults that land *inside* a write or a read:

  disk_full@k      RLIMIT_FSIZE = k with SIGXFSZ ignored: the kernel refuses
                   the write crossing byte k (EFBIG / short write) - reaches
                   pyarrow's and NumPy's native writers as well
  stream_error@n   the dataiter.util.xopen seam is wrapped in a counting proxy
                   that raises OSError(ENOSPC/EIO) from the n-th write or read
  truncate@k       the simulator truncates a file (torn file; only used to
                   compare read routes with each other, see C14)
"""

import bz2
import contextlib
import copy
import errno
import gc
import gzip
import io
import json
import lzma
import os
import random
import resource
import shutil
import signal
import sys

from dsim import kernel
from dsim.kernel import Violation

NAME = "e3"
CHUNK = 10
RUNS = {"C12": (6000, 250000), "C14": (6000, 250000), "C18": (8000, 300000)}
RULE = ("one run = one seeded history of 4..25 storage operations (write / overwrite / read by "
        "route / restricted read / truncate / faulted write / faulted read) over <=6 documents "
        "inside each format's representable domain; non-trivial iff >=1 write was acknowledged "
        "and read back and the history has >=3 ops; distinct = distinct sequence of (op, format, "
        "suffix, option class, fault kind, outcome class)")
STUBS = [
    "disk full: RLIMIT_FSIZE soft limit set around the write call, SIGXFSZ ignored "
    "(kernel-enforced EFBIG / short write at byte k)",
    "stream errors: counting proxy around dataiter.util.xopen (pass-through except at the fault)",
    "torn files: the simulator truncates files itself (process death with intact page cache)",
    "documents: generated inside a conservative representable domain per format (listed in "
    "coverage.representable_domain)",
]
ASSUMPTIONS = {
    "C12": ["a write that returned normally is acknowledged and must read back equal, whatever "
            "fault was armed; a write that raised promises nothing about its target path",
            "CSV/JSON documents are generated inside a conservative representable domain",
            "torn-file reads are not judged under C12 (the property only covers files written by "
            "the matching write method)"],
    "C14": ["restricted vs full-then-select is compared as a mapping name -> column (order of the "
            "result columns is not demanded)", "restricted == full-then-select only on intact files; "
            "alias == class method on intact and torn files (same value or same exception type)"],
    "C18": ["property values are homogeneous per key; 'properties': null and a property named "
            "'geometry' are outside the generated domain; no NaN/inf floats (not JSON)"],
}
DOMAIN = {
    "pickle/npz/parquet": "bool, int64, float64(NaN), string('' missing), date, datetime[us] "
                          "(+object for pickle/npz), any missing pattern, >=1 row",
    "csv": "leading int64 id column without missing values; bool, int64, float64(NaN), date, "
           "datetime, strings from an alphabet that never parses as another type (delimiters, "
           "quotes, newlines, non-ASCII, non-BMP allowed); sep in , ; TAB |; header T/F; "
           "encodings utf-8, utf-16, latin-1 (latin-1 alphabet)",
    "json": "bool/int/float/str/None values",
    "ListOfDicts": "pickle/json: ragged dicts of None/bool/int/float/str; csv: full key sets, "
                   "str values",
    "geojson": "<=8 features, <=5 property keys (homogeneous type per key), 7 geometry types + "
               "null, <=3 extra top-level members incl. names needing JSON escaping",
}

SUFFIXES = ["", ".gz", ".bz2", ".xz"]
MAGIC = {".gz": b"\x1f\x8b", ".bz2": b"BZh", ".xz": b"\xfd7zXZ\x00"}
DECOMP = {".gz": gzip.decompress, ".bz2": bz2.decompress, ".xz": lzma.decompress}

STR_ALPHA = ["x", "y z", "a,b", 'q"uote', "line\nbreak", "ünï", "日本",
             "\U0001d4b3wide", " lead", "trail ", "a;b", "a|b", "a\tb", "x", "Zed", "it's",
             "back\\slash", "cr\r\nlf"]
STR_LATIN1 = ["x", "y z", "a,b", 'q"uote', "line\nbreak", "ünï", " lead", "a;b", "a|b",
              "x", "café"]
DATES = ["2020-01-01", "1999-12-31", "1970-01-01", "2024-02-29", "1900-03-01", "2099-12-31"]
DATETIMES = ["2020-01-01T10:00:00.500000", "1999-12-31T23:59:59.000000",
             "1970-01-01T00:00:00.000000", "2024-02-29T12:30:00.250000",
             "1901-01-01T00:00:01.000000"]


class SimIOError(OSError):
    pass


# ---------------------------------------------------------------------------
# The xopen seam

class FaultPlan:
    def __init__(self, fault):
        self.fault = fault or {}
        self.counts = {"write": 0, "read": 0}
        self.fired = False

    def tick(self, what):
        self.counts[what] += 1
        f = self.fault
        if (f.get("kind") == "stream_error" and f.get("call") == what and not self.fired
                and self.counts[what] == f.get("n")):
            self.fired = True
            code = errno.ENOSPC if f.get("errno") == "ENOSPC" else errno.EIO
            raise SimIOError(code, "injected stream fault at %s #%d" % (what, self.counts[what]))


class FaultyStream:
    """Counting proxy around the object returned by the real xopen."""

    def __init__(self, f, plan):
        object.__setattr__(self, "_f", f)
        object.__setattr__(self, "_plan", plan)

    def write(self, data):
        self._plan.tick("write")
        return self._f.write(data)

    def read(self, *args):
        self._plan.tick("read")
        return self._f.read(*args)

    def readline(self, *args):
        self._plan.tick("read")
        return self._f.readline(*args)

    def __iter__(self):
        return self

    def __next__(self):
        self._plan.tick("read")
        return next(self._f)

    def __enter__(self):
        self._f.__enter__()
        return self

    def __exit__(self, *exc):
        return self._f.__exit__(*exc)

    def __getattr__(self, name):
        return getattr(self._f, name)


@contextlib.contextmanager
def xopen_seam(plan):
    util = sys.modules["dataiter.util"]
    real = util.xopen

    def sim_xopen(path, mode="r", **kwargs):
        return FaultyStream(real(path, mode, **kwargs), plan)
    util.xopen = sim_xopen
    try:
        yield
    finally:
        util.xopen = real


@contextlib.contextmanager
def disk_full(k):
    soft, hard = resource.getrlimit(resource.RLIMIT_FSIZE)
    resource.setrlimit(resource.RLIMIT_FSIZE, (k, hard))
    try:
        yield
    finally:
        resource.setrlimit(resource.RLIMIT_FSIZE, (soft, hard))


# ---------------------------------------------------------------------------
# Documents (literal specs) -> real objects, and comparison

def build_frame(doc):
    import dataiter as di
    import numpy as np
    cols = {}
    for name, dtype, values in doc["cols"]:
        if dtype == "bool":
            cols[name] = np.array(values, bool)
        elif dtype == "int":
            cols[name] = np.array(values, "int64")
        elif dtype == "float":
            cols[name] = np.array([np.nan if v is None else v for v in values], "float64")
        elif dtype == "str":
            cols[name] = di.Vector(["" if v is None else v for v in values], str)
        elif dtype == "date":
            cols[name] = np.array(["NaT" if v is None else v for v in values], "datetime64[D]")
        elif dtype == "datetime":
            cols[name] = np.array(["NaT" if v is None else v for v in values], "datetime64[us]")
        elif dtype in ("object", "objint"):
            cols[name] = np.array(values + [None], object)[:-1]
        else:
            raise AssertionError(dtype)
    return di.DataFrame(**cols)


def frame_mismatch(real, doc, binary, positional=False, names=None):
    """Return None if `real` equals the logical document, else a description."""
    import numpy as np
    import dataiter as di
    if not isinstance(real, di.DataFrame):
        return f"not a DataFrame: {type(real).__name__}"
    cols = doc["cols"]
    if names is not None:
        cols = [c for n in names for c in cols if c[0] == n]
    want_names = [c[0] for c in cols]
    if positional:
        if real.ncol != len(cols):
            return f"{real.ncol} columns, expected {len(cols)}"
    elif real.colnames != want_names:
        return f"column names/order {real.colnames!r} != {want_names!r}"
    for j, (name, dtype, values) in enumerate(cols):
        col = real.columns[j] if positional else real[name]
        if len(col) != len(values):
            return f"column {name!r}: {len(col)} rows, expected {len(values)}"
        try:
            na = [bool(x) for x in col.is_na()]
        except Exception as e:
            return f"column {name!r}: is_na raised {e!r}"
        want_na = [v is None for v in values]
        if na != want_na:
            return (f"column {name!r} ({dtype}): missing positions {na} != {want_na}; "
                    f"values {col.tolist()!r} expected {values!r}")
        for i, v in enumerate(values):
            if v is None:
                continue
            got = col[i]
            if dtype in ("date", "datetime"):
                ok = isinstance(got, np.datetime64) and got == np.datetime64(v)
            elif dtype == "bool":
                ok = isinstance(got, (bool, np.bool_)) and bool(got) == v
            elif dtype == "int":
                ok = (isinstance(got, (int, np.integer, float, np.floating)) and
                      not isinstance(got, (bool, np.bool_)) and got == v)
            elif dtype == "float":
                ok = (isinstance(got, (int, np.integer, float, np.floating)) and
                      not isinstance(got, (bool, np.bool_)) and float(got) == v)
            elif dtype == "str":
                ok = isinstance(got, str) and got == v
            elif dtype == "objint":
                # an object column of ints and None comes back as a numeric column
                ok = isinstance(got, (int, float, np.integer, np.floating)) and \
                    not isinstance(got, (bool, np.bool_)) and float(got) == float(v)
            else:
                ok = type(got) is type(v) and got == v
            if not ok:
                return (f"column {name!r} ({dtype}) row {i}: {got!r} ({type(got).__name__}) "
                        f"!= {v!r}")
        if binary and dtype != "objint":
            want = {"bool": "bool", "int": "int64", "float": "float64",
                    "str": "StringDType(na_object='')", "date": "datetime64[D]",
                    "datetime": "datetime64[us]", "object": "object"}[dtype]
            if str(col.dtype) != want:
                return f"column {name!r}: dtype {col.dtype} != {want} (binary format)"
    return None


def same_value(a, b):
    """Strict deep equality (1 != True != 1.0), for ListOfDicts / JSON documents."""
    if isinstance(a, dict) and isinstance(b, dict):
        return list(a.keys()) == list(b.keys()) and all(same_value(a[k], b[k]) for k in a)
    if isinstance(a, (list, tuple)) and isinstance(b, (list, tuple)):
        return len(a) == len(b) and all(same_value(x, y) for x, y in zip(a, b))
    if isinstance(a, float) and isinstance(b, float) and a != a and b != b:
        return True
    return type(a) is type(b) and a == b


def loose_value(a, b):
    """Equality up to int/float (absent == null handled by caller)."""
    if isinstance(a, dict) and isinstance(b, dict):
        return a.keys() == b.keys() and all(loose_value(a[k], b[k]) for k in a)
    if isinstance(a, (list, tuple)) and isinstance(b, (list, tuple)):
        return len(a) == len(b) and all(loose_value(x, y) for x, y in zip(a, b))
    if isinstance(a, bool) or isinstance(b, bool):
        return isinstance(a, bool) and isinstance(b, bool) and a == b
    if isinstance(a, (int, float)) and isinstance(b, (int, float)):
        return a == b
    return type(a) is type(b) and a == b


def plain(obj):
    import numpy as np
    if isinstance(obj, dict):
        return {k: plain(v) for k, v in obj.items()}
    if isinstance(obj, (list, tuple)):
        return [plain(v) for v in obj]
    if isinstance(obj, np.generic):
        return obj.item()
    return obj


def describe(obj):
    """Canonical description of a read result for route comparisons / digests."""
    import numpy as np
    import dataiter as di
    if isinstance(obj, di.DataFrame):
        out = {"type": type(obj).__name__, "cols": []}
        for name in obj.colnames:
            col = obj[name]
            vals = []
            for v in col:
                if isinstance(v, (float, np.floating)) and v != v:
                    vals.append("NaN")
                elif isinstance(v, np.datetime64):
                    vals.append(str(v))
                elif isinstance(v, np.generic):
                    vals.append([type(v.item()).__name__, v.item()])
                elif isinstance(v, dict):
                    vals.append(plain(v))
                else:
                    vals.append([type(v).__name__, v])
            out["cols"].append([name, str(col.dtype), vals])
        if isinstance(obj, di.GeoJSON):
            out["metadata"] = plain(dict(obj.metadata))
        return out
    if isinstance(obj, list):
        return {"type": type(obj).__name__,
                "items": [[[k, type(v).__name__, plain(v)] for k, v in x.items()] for x in obj]}
    return {"type": type(obj).__name__, "repr": repr(obj)[:200]}


def describe_unordered(obj):
    d = describe(obj)
    if "cols" in d:
        d["cols"] = sorted(d["cols"], key=lambda c: c[0])
    return d


# ---------------------------------------------------------------------------

FORMATS = {
    # fmt: (kind, extension, suffixes allowed, binary)
    "pickle": ("frame", ".pkl", SUFFIXES, True),
    "npz": ("frame", ".npz", [""], True),
    "parquet": ("frame", ".parquet", [""], True),
    "csv": ("frame", ".csv", SUFFIXES, False),
    "json": ("frame", ".json", SUFFIXES, False),
    "lod_pickle": ("lod", ".pkl", SUFFIXES, True),
    "lod_json": ("lod", ".json", SUFFIXES, False),
    "lod_csv": ("lod", ".csv", SUFFIXES, False),
    "geojson": ("geojson", ".geojson", SUFFIXES, False),
}


class World:

    def __init__(self, prop, root):
        import dataiter as di
        self.di = di
        self.prop = prop
        self.root = root
        self.files = {}          # relpath -> {"fmt", "opts", "doc", "state"}
        self.kw_objects = {}     # canonical literal -> built keyword arguments (reused objects)
        self.hold_failed_writer = False
        self.held = []
        self.extra_pool = []     # literals used so far in this run
        self.violations = []
        self.faults = {}
        self.probes = {"ack_under_armed_fault": 0, "write_failed_loudly": 0,
                       "overwrite_longer_by_shorter": 0, "nested_dir_created": 0,
                       "compressed_roundtrip": 0, "magic_checked": 0, "torn_read_raised": 0,
                       "torn_read_returned": 0, "restricted_read_checked": 0,
                       "alias_route_checked": 0, "reordered_restriction": 0,
                       "typemap_checked": 0, "non_utf8_encoding": 0, "fault_armed_not_fired": 0,
                       "geojson_escaped_member_name": 0, "geojson_null_geometry": 0,
                       "read_fault_fired": 0, "failed_overwrite_of_acked_file": 0, "failing_cast_read": 0, "reused_keyword_object": 0, "geojson_edit_then_rewrite": 0, "edit_then_rewrite": 0}
        self.opcount = {}
        self.log = []
        self.abstract = []
        self.step = -1
        self.acked_reads = 0

    def viol(self, prop, oracle, sig, detail):
        self.violations.append(Violation(prop, oracle, sig, self.step, detail))

    def path(self, rel):
        if getattr(self, "relative", False):
            return rel
        return os.path.join(self.root, rel)

    # -- write ----------------------------------------------------------------

    def do_write(self, fmt, doc, path, opts):
        di = self.di
        o = dict(opts)
        if fmt == "pickle":
            return build_frame(doc).write_pickle(path)
        if fmt == "npz":
            return build_frame(doc).write_npz(path, compress=o.get("compress", False))
        if fmt == "parquet":
            return build_frame(doc).write_parquet(path)
        if fmt == "csv":
            return build_frame(doc).write_csv(path, **o)
        if fmt == "json":
            return build_frame(doc).write_json(path, **o)
        if fmt == "lod_pickle":
            return di.ListOfDicts(copy.deepcopy(doc["items"])).write_pickle(path)
        if fmt == "lod_json":
            return di.ListOfDicts(copy.deepcopy(doc["items"])).write_json(path, **o)
        if fmt == "lod_csv":
            return di.ListOfDicts(copy.deepcopy(doc["items"])).write_csv(path, **o)
        if fmt == "geojson":
            # the source of truth is a file written by an independent writer
            raise AssertionError("geojson documents are written through op_geo")
        raise AssertionError(fmt)

    def read_opts(self, fmt, opts):
        o = {}
        if fmt in ("csv", "lod_csv"):
            for k in ("encoding", "sep", "header"):
                if k in opts:
                    o[k] = opts[k]
        elif fmt in ("json", "lod_json", "geojson"):
            if "encoding" in opts:
                o["encoding"] = opts["encoding"]
        return o

    def do_read(self, fmt, path, ropts, route="class", extra=None):
        di = self.di
        kw = dict(ropts)
        kw.update(extra or {})
        if fmt == "pickle":
            return di.DataFrame.read_pickle(path)
        if fmt == "npz":
            return (di.read_npz if route == "alias" else di.DataFrame.read_npz)(path, **kw)
        if fmt == "parquet":
            return (di.read_parquet if route == "alias" else di.DataFrame.read_parquet)(path, **kw)
        if fmt == "csv":
            return (di.read_csv if route == "alias" else di.DataFrame.read_csv)(path, **kw)
        if fmt == "json":
            return di.DataFrame.read_json(path, **kw)
        if fmt == "lod_pickle":
            return di.ListOfDicts.read_pickle(path)
        if fmt == "lod_json":
            return (di.read_json if route == "alias" else di.ListOfDicts.read_json)(path, **kw)
        if fmt == "lod_csv":
            return di.ListOfDicts.read_csv(path, **kw)
        if fmt == "geojson":
            return (di.read_geojson if route == "alias" else di.GeoJSON.read)(path, **kw)
        raise AssertionError(fmt)

    def mismatch(self, fmt, real, doc, opts, names=None):
        kind, ext, sfx, binary = FORMATS[fmt]
        di = self.di
        if kind == "frame":
            positional = fmt == "csv" and opts.get("header") is False
            return frame_mismatch(real, doc, binary, positional=positional, names=names)
        if kind == "lod":
            if not isinstance(real, di.ListOfDicts):
                return f"not a ListOfDicts: {type(real).__name__}"
            got = [plain(dict(x)) for x in real]
            want = doc["items"]
            if fmt == "lod_csv" and opts.get("header") is False:
                got = [list(x.values()) for x in got]
                want = [list(x.values()) for x in want]
            if not same_value(got, want):
                return f"items {got!r} != {want!r}"
            return None
        raise AssertionError(kind)

    def op_write(self, op):
        if op.get("relative"):
            # a bare relative path ("f1.csv.gz", "d1/f2.json"): cwd is the scratch root
            cwd = os.getcwd()
            os.chdir(self.root)
            self.relative = True
            try:
                return self._op_write(op)
            finally:
                self.relative = False
                os.chdir(cwd)
        return self._op_write(op)

    def _op_write(self, op):
        fmt, rel, opts, doc = op["fmt"], op["path"], op.get("opts", {}), op["doc"]
        kind, ext, sfx, binary = FORMATS[fmt]
        path = self.path(rel)
        fault = op.get("fault")
        prev = self.files.get(rel)
        existed = os.path.exists(path)
        nested = not os.path.isdir(os.path.dirname(path))
        old_size = os.path.getsize(path) if existed else None
        if opts.get("encoding", "utf-8") != "utf-8":
            self.probes["non_utf8_encoding"] += 1
        plan = FaultPlan(fault)
        err = None
        # learn the fault-free size (and the plain bytes) from a sibling probe write
        probe_rel = os.path.join("probe", os.path.basename(rel))
        probe = self.path(probe_rel)
        size = None
        if fault and fault["kind"] == "disk_full":
            try:
                self.do_write(fmt, doc, probe, opts)
                actual = probe if os.path.exists(probe) else probe + ".npz"
                size = os.path.getsize(actual)
            except Exception:
                size = None
            shutil.rmtree(os.path.dirname(probe), ignore_errors=True)
        with xopen_seam(plan):
            try:
                if fault and fault["kind"] == "disk_full" and size is not None:
                    k = fault["k"] if isinstance(fault["k"], int) else int(fault["k"] * size)
                    if fault.get("edge") == "minus1":
                        k = max(0, size - 1)
                    k = max(0, min(k, size + 4))
                    with disk_full(k):
                        self.do_write(fmt, doc, path, opts)
                    fired = k < size
                else:
                    self.do_write(fmt, doc, path, opts)
                    fired = plan.fired
            except Exception as e:
                err = e
                fired = True if (fault and fault["kind"] == "disk_full") else plan.fired
        if fault:
            if fired:
                key = fault["kind"]
                self.faults[key] = self.faults.get(key, 0) + 1
            else:
                self.probes["fault_armed_not_fired"] += 1
        if err is not None:
            # Release the failed writer *now* (a user's except block does the same): a
            # half-closed zipfile/gzip object kept alive by the traceback would flush its
            # buffer into the same inode at some later, arbitrary garbage collection.
            if self.hold_failed_writer and FORMATS[fmt][1] != ".parquet":
                # the caller retries inside its except block: the failed call's exception (and
                # whatever it keeps alive) is released only after the next operation.  Not for
                # Parquet, whose half-closed native writer is Arrow's business.
                self.held.append(err)
                err = err.with_traceback(err.__traceback__)
            else:
                err = err.with_traceback(None)
                gc.collect()
        outcome = "ack" if err is None else "fail:" + type(err).__name__
        self.abstract.append(("write", fmt, os.path.splitext(rel)[1], self.optclass(opts),
                              (fault or {}).get("kind"), "ack" if err is None else "fail"))
        entry = {"op": "write", "fmt": fmt, "path": rel, "outcome": outcome}
        self.log.append(entry)
        if err is not None:
            if fault is None or not fired:
                self.viol("C12" if kind != "geojson" else "C18", "total",
                          f"C12.write-raise|{fmt}|{self.sfx(rel)}|{type(err).__name__}",
                          f"write_{fmt} raised {err!r} without a fault; opts={opts!r} doc={doc!r}")
            else:
                self.probes["write_failed_loudly"] += 1
            if prev is not None and prev["state"] == "acked":
                self.probes["failed_overwrite_of_acked_file"] += 1
            # a failed write promises nothing about its own path
            self.files.pop(rel, None)
            if os.path.exists(path):
                self.files[rel] = {"fmt": fmt, "opts": opts, "doc": doc, "state": "undefined"}
            return
        # acknowledged
        if fault is not None:
            self.probes["ack_under_armed_fault"] += 1
        if nested:
            self.probes["nested_dir_created"] += 1
        self.files[rel] = {"fmt": fmt, "opts": opts, "doc": doc, "state": "acked"}
        if not os.path.exists(path):
            self.viol("C12", "exists", f"C12.missing-file|{fmt}|{self.sfx(rel)}",
                      f"write_{fmt} returned but {rel} does not exist")
            self.files[rel]["state"] = "undefined"
            return
        if existed and old_size is not None and os.path.getsize(path) < old_size:
            self.probes["overwrite_longer_by_shorter"] += 1
        # really compressed?
        s = self.sfx(rel)
        if s:
            self.probes["magic_checked"] += 1
            with open(path, "rb") as f:
                head = f.read(8)
            if not head.startswith(MAGIC[s]):
                self.viol("C12", "magic", f"C12.not-compressed|{fmt}|{s}",
                          f"write_{fmt} to {rel}: file starts with {head!r}, not the {s} magic "
                          f"{MAGIC[s]!r} - not compressed on write")
        # the acknowledged write must read back equal right away
        self.check_roundtrip(rel, op)

    def sfx(self, rel):
        for s in (".gz", ".bz2", ".xz"):
            if rel.endswith(s):
                return s
        return ""

    def optclass(self, opts):
        return (opts.get("encoding", "utf-8"), opts.get("sep", ","), opts.get("header", True))

    def check_roundtrip(self, rel, op, when="after-write"):
        info = self.files[rel]
        fmt, opts, doc = info["fmt"], info["opts"], info["doc"]
        path = self.path(rel)
        try:
            real = self.do_read(fmt, path, self.read_opts(fmt, opts))
        except Exception as e:
            self.viol("C12", "roundtrip", f"C12.read-raise|{fmt}|{self.sfx(rel)}|{type(e).__name__}",
                      f"read_{fmt}({rel}, {self.read_opts(fmt, opts)!r}) of an acknowledged write "
                      f"raised {e!r} ({when}); opts={opts!r} doc={doc!r}")
            return None
        why = self.mismatch(fmt, real, doc, opts)
        self.acked_reads += 1
        if self.sfx(rel):
            self.probes["compressed_roundtrip"] += 1
        if why:
            fault = (op or {}).get("fault") or {}
            tag = "after-" + fault["kind"] if fault.get("kind") else "fault-free"
            what = "dtype" if "dtype" in why and "binary" in why else "data"
            self.viol("C12", "roundtrip", f"C12.roundtrip|{fmt}|{self.sfx(rel)}|{what}|{tag}",
                      f"read_{fmt}({rel}) ({when}) differs from what was written: {why}; "
                      f"opts={opts!r}")
        return real

    # -- read ops ---------------------------------------------------------------

    def op_read(self, op):
        rel = op["path"]
        info = self.files.get(rel)
        if info is None:
            return
        fmt, opts, doc = info["fmt"], info["opts"], info["doc"]
        path = self.path(rel)
        ropts = self.read_opts(fmt, opts)
        fault = op.get("fault")
        plan = FaultPlan(fault)
        res, err = None, None
        with xopen_seam(plan):
            try:
                res = self.do_read(fmt, path, ropts)
            except Exception as e:
                err = e
        if fault and plan.fired:
            self.faults["read_error"] = self.faults.get("read_error", 0) + 1
            self.probes["read_fault_fired"] += 1
        elif fault:
            self.probes["fault_armed_not_fired"] += 1
        state = info["state"]
        self.abstract.append(("read", fmt, self.sfx(rel), state, (fault or {}).get("kind"),
                              "ok" if err is None else "raise"))
        self.log.append({"op": "read", "path": rel, "state": state,
                         "outcome": "ok" if err is None else type(err).__name__})
        if state == "acked":
            if err is not None:
                if plan.fired:
                    return          # an injected read error may fail loudly
                self.viol("C12", "roundtrip",
                          f"C12.read-raise|{fmt}|{self.sfx(rel)}|{type(err).__name__}",
                          f"later read_{fmt}({rel}) of an acknowledged write raised {err!r}")
                return
            why = self.mismatch(fmt, res, doc, opts) if fmt != "geojson" else \
                self.geo_mismatch(res, doc)
            self.acked_reads += 1
            if why:
                tag = "under-read-fault" if plan.fired else "later-read"
                self.viol("C18" if fmt == "geojson" else "C12", "roundtrip",
                          f"C12.roundtrip|{fmt}|{self.sfx(rel)}|data|{tag}",
                          f"read_{fmt}({rel}) differs from what was written: {why}")
        elif state == "torn":
            if err is not None:
                self.probes["torn_read_raised"] += 1
            else:
                self.probes["torn_read_returned"] += 1

    def op_rewrite(self, op):
        """
        One frame object: write it (or just look at it), edit one cell in place, write it to a
        second path; the second file must hold the edited frame.
        """
        fmt, opts = op["fmt"], op.get("opts", {})
        doc = copy.deepcopy(op["doc"])
        frame = build_frame(doc)
        ci, ri, val = op["edit"]
        name, dtype, values = doc["cols"][ci]
        p1 = self.path(op["path"] + ".first" + FORMATS[fmt][1])
        p2 = self.path(op["path"] + FORMATS[fmt][1])
        os.makedirs(os.path.dirname(p1) or ".", exist_ok=True)
        writer = {"pickle": "write_pickle", "parquet": "write_parquet", "csv": "write_csv",
                  "json": "write_json", "npz": "write_npz"}[fmt]
        try:
            getattr(frame, writer)(p1)
            frame[name].is_na()
            frame[name].tolist()
            # the caller's in-place edit
            v = val
            if dtype == "date":
                import numpy as np
                v = np.datetime64(val)
            frame[name][ri] = v
            values[ri] = val
            getattr(frame, writer)(p2)
            back = self.do_read(fmt, p2, {})
        except Exception as e:
            self.viol("C12", "rewrite", f"C12.rewrite-raise|{fmt}|{type(e).__name__}",
                      f"write / edit cell in place / write again raised {e!r}; doc={op['doc']!r} edit={op['edit']!r}")
            return
        self.acked_reads += 1
        self.probes["edit_then_rewrite"] += 1
        self.abstract.append(("rewrite", fmt, dtype))
        why = frame_mismatch(back, doc, FORMATS[fmt][3])
        self.log.append({"op": "rewrite", "fmt": fmt, "ok": why is None})
        if why:
            self.viol("C12", "rewrite", f"C12.roundtrip|{fmt}||data|after-in-place-edit",
                      f"frame written, cell {name!r}[{ri}] set to {val!r} in place, written again: the "
                      f"second file reads back differently: {why}")

    def op_restart(self, op):
        """
        Restart: every in-memory object is gone, only the disk survives.  The
        file is read in a fresh interpreter and must give exactly what a read
        in this (long-lived, history-laden) process gives, and equal the model.
        """
        rel = op["path"]
        info = self.files.get(rel)
        if info is None or info["state"] != "acked" or info["fmt"] == "geojson":
            return
        fmt, opts, doc = info["fmt"], info["opts"], info["doc"]
        path = self.path(rel)
        ropts = self.read_opts(fmt, opts)
        spec = json.dumps({"fmt": fmt, "path": path, "ropts": ropts})
        env = dict(os.environ, DATAITER_USE_NUMBA="0", PYTHONHASHSEED="0")
        code = ("import json,sys; from dsim import e3_storage as E; s=json.loads(sys.argv[1]); "
                "w=E.World('C12', '/nonexistent'); "
                "r=w.do_read(s['fmt'], s['path'], s['ropts']); print('RESULT '+json.dumps(E.describe(r)))")
        import subprocess
        p = subprocess.run([sys.executable, "-c", code, spec], capture_output=True, text=True,
                           env=env, timeout=300)
        self.faults["restart"] = self.faults.get("restart", 0) + 1
        self.abstract.append(("restart", fmt, self.sfx(rel)))
        fresh = None
        for line in p.stdout.splitlines():
            if line.startswith("RESULT "):
                fresh = json.loads(line[7:])
        self.log.append({"op": "restart", "path": rel, "ok": fresh is not None})
        if fresh is None:
            self.viol("C12", "restart", f"C12.restart|{fmt}|{self.sfx(rel)}|fresh-interpreter-read-raises",
                      f"reading {rel} in a fresh interpreter failed: {p.stderr[-300:]}")
            return
        try:
            here = json.loads(json.dumps(describe(self.do_read(fmt, path, ropts))))
        except Exception as e:
            here = {"raised": repr(e)}
        self.acked_reads += 1
        if here != fresh:
            self.viol("C12", "restart", f"C12.restart|{fmt}|{self.sfx(rel)}|fresh-interpreter-read-differs",
                      f"read_{fmt}({rel}) gives {here!r} in the running process but {fresh!r} after a "
                      f"restart (fresh interpreter)")

    def op_rmtree(self, op):
        """An operator removes a directory; later writes below it must recreate it."""
        d = op["dir"]
        path = self.path(d)
        if not d or not os.path.isdir(path):
            return
        shutil.rmtree(path, ignore_errors=True)
        for rel in [r_ for r_ in self.files if r_.startswith(d + os.sep)]:
            del self.files[rel]
        self.faults["rmtree"] = self.faults.get("rmtree", 0) + 1
        self.abstract.append(("rmtree",))
        self.log.append({"op": "rmtree", "dir": d})

    def op_truncate(self, op):
        rel = op["path"]
        info = self.files.get(rel)
        path = self.path(rel)
        if info is None or not os.path.exists(path):
            return
        size = os.path.getsize(path)
        k = int(size * op["frac"])
        if op.get("edge") == "minus1":
            k = max(0, size - 1)
        with open(path, "r+b") as f:
            f.truncate(k)
        info["state"] = "torn"
        self.faults["truncate"] = self.faults.get("truncate", 0) + 1
        self.abstract.append(("truncate", info["fmt"], self.sfx(rel)))
        self.log.append({"op": "truncate", "path": rel, "k": k})

    # -- C14: routes -----------------------------------------------------------

    def call_route(self, fmt, path, ropts, route, extra):
        try:
            return self.do_read(fmt, path, ropts, route=route, extra=extra), None
        except Exception as e:
            return None, e

    def op_routes(self, op):
        """alias == class method, for the seeded keyword combination."""
        rel = op["path"]
        info = self.files.get(rel)
        if info is None or not os.path.exists(self.path(rel)):
            return
        fmt, opts = info["fmt"], info["opts"]
        if fmt not in ("csv", "npz", "parquet", "lod_json", "geojson"):
            return
        path = self.path(rel)
        ropts = self.read_opts(fmt, opts)
        extra = dict(self.make_extra(fmt, op.get("extra") or {}))
        a, ea = self.call_route(fmt, path, ropts, "class", extra)
        b, eb = self.call_route(fmt, path, ropts, "alias", extra)
        self.probes["alias_route_checked"] += 1
        self.abstract.append(("routes", fmt, self.sfx(rel), info["state"], sorted(extra)))
        self.log.append({"op": "routes", "path": rel,
                         "class": type(ea).__name__ if ea else "ok",
                         "alias": type(eb).__name__ if eb else "ok"})
        kws = "+".join(sorted(extra)) or "none"
        if (ea is None) != (eb is None) or (ea is not None and type(ea) is not type(eb)):
            self.viol("C14", "alias", f"C14.alias|{fmt}|{kws}|outcome-differs",
                      f"{fmt}: class method -> {repr(ea) if ea else 'ok'}, alias -> "
                      f"{repr(eb) if eb else 'ok'} for kwargs {extra!r} (file state {info['state']})")
            return
        if ea is None and describe(a) != describe(b):
            self.viol("C14", "alias", f"C14.alias|{fmt}|{kws}|result-differs",
                      f"{fmt}: alias result differs from class method for kwargs {extra!r}: "
                      f"class={describe(a)!r} alias={describe(b)!r}")

    def make_extra(self, fmt, lit):
        """
        Literal -> keyword arguments (dtype names -> types).  Equal literals give the
        *same* objects for the whole run: a caller who reuses one `dtypes` mapping or
        `columns` list for several reads is part of the history.
        """
        key = kernel.canon(lit)
        if key in self.kw_objects:
            return self.kw_objects[key]
        out = self.kw_objects[key] = {}
        for k, v in lit.items():
            if k in ("dtypes",):
                out[k] = {n: {"float": float, "object": object, "str": str, "int": int}[t]
                          for n, t in v.items()}
            elif k == "types":
                out[k] = {n: {"int": int, "float": float, "str": str, "bool": bool}[t]
                          for n, t in v.items()}
            elif k in ("parse_float", "parse_int"):
                out[k] = {"str": str, "float": float}[v]       # json.load keyword arguments
            else:
                out[k] = v
        return out

    def op_restrict(self, op):
        """restricted / typed read == read everything, then select and cast."""
        rel = op["path"]
        info = self.files.get(rel)
        if info is None or info["state"] != "acked":
            return
        fmt, opts, doc = info["fmt"], info["opts"], info["doc"]
        if fmt not in ("csv", "json", "parquet", "lod_json", "lod_csv", "geojson"):
            return
        di = self.di
        path = self.path(rel)
        ropts = self.read_opts(fmt, opts)
        lit = op.get("extra") or {}
        extra = dict(self.make_extra(fmt, lit))
        if lit and lit not in self.extra_pool:
            self.extra_pool.append(copy.deepcopy(lit))
        full, ef = self.call_route(fmt, path, ropts, "class", None)
        if ef is not None:
            return      # C12's business
        res, er = self.call_route(fmt, path, ropts, op.get("route", "class"), extra)
        # "restricting ... a read never changes what is read": also not what a later
        # unrestricted read of the same file returns
        again, ea = self.call_route(fmt, path, ropts, "class", None)
        if ea is not None or describe(again) != describe(full):
            kws0 = "+".join(sorted(lit)) or "none"
            self.viol("C14", "history", f"C14.history|{fmt}|{kws0}|restricted-read-changed-later-full-read",
                      f"{fmt}: after a read with {lit!r} the unrestricted read of the same file gives "
                      f"{repr(ea) if ea else describe(again)!r}, before it gave {describe(full)!r}")
        names = lit.get("columns") or lit.get("keys") or []
        if names and names != sorted(names, key=lambda n: self.file_order(fmt, full).index(n)
                                     if n in self.file_order(fmt, full) else -1):
            self.probes["reordered_restriction"] += 1
        if lit.get("dtypes") or lit.get("types"):
            self.probes["typemap_checked"] += 1
        self.probes["restricted_read_checked"] += 1
        self.abstract.append(("restrict", fmt, self.sfx(rel), sorted(lit), op.get("route", "class")))
        # reference: read all, select, cast
        try:
            ref = self.reference_restrict(fmt, full, lit)
            eref = None
        except Exception as e:
            ref, eref = None, e
        self.log.append({"op": "restrict", "path": rel, "extra": lit,
                         "outcome": type(er).__name__ if er else "ok"})
        kws = "+".join(sorted(lit)) or "none"
        route = op.get("route", "class")
        if eref is not None:
            self.probes["failing_cast_read"] += 1
            self.faults["failing_cast"] = self.faults.get("failing_cast", 0) + 1
            return      # reference itself undefined (e.g. impossible cast): no claim
        if er is not None:
            self.viol("C14", "restrict", f"C14.restrict|{fmt}|{kws}|{route}|raises-{type(er).__name__}",
                      f"{fmt}: read with {lit!r} raised {er!r} but read-all-then-select works")
            return
        if describe_unordered(res) != describe_unordered(ref):
            self.viol("C14", "restrict", f"C14.restrict|{fmt}|{kws}|{route}|differs-from-select",
                      f"{fmt}: read with {lit!r} gives {describe(res)!r}; reading everything and "
                      f"selecting/casting gives {describe(ref)!r}")

    def file_order(self, fmt, full):
        di = self.di
        if isinstance(full, di.DataFrame):
            return full.colnames
        return list(full.keys()) if isinstance(full, di.ListOfDicts) else []

    def reference_restrict(self, fmt, full, lit):
        di = self.di
        import numpy as np
        if isinstance(full, di.DataFrame):
            names = lit.get("columns") or []
            data = full
            if names:
                keep = [n for n in names if n in full]
                if isinstance(full, di.GeoJSON):
                    keep = [n for n in keep if n != "geometry"] + ["geometry"]
                    meta = full.metadata
                    data = full.select(*keep)
                    data.metadata = meta
                else:
                    data = full.select(*keep)
            for n, t in (lit.get("dtypes") or {}).items():
                t = {"float": float, "object": object, "str": str, "int": int}[t]
                if data[n].is_na().any() and t in (object, str):
                    # missing values stay missing in the target type
                    data[n] = di.DataFrameColumn(data[n].tolist(), t)
                else:
                    data[n] = data[n].astype(di.Vector._map_input_dtype(t))
            return data
        keys = lit.get("keys") or []
        data = full.deepcopy()
        if keys:
            data = di.ListOfDicts([{k: v for k, v in x.items() if k in keys} for x in data])
        for k, t in (lit.get("types") or {}).items():
            t = {"int": int, "float": float, "str": str, "bool": bool}[t]
            for x in data:
                if k in x:
                    x[k] = t(x[k])
        return data

    # -- C18: GeoJSON -----------------------------------------------------------

    def geo_source(self, doc):
        fc = {"type": "FeatureCollection"}
        for k, v in doc["meta"]:
            fc[k] = copy.deepcopy(v)
        feats = []
        for f in doc["features"]:
            feats.append({"type": "Feature", "properties": copy.deepcopy(f["properties"]),
                          "geometry": copy.deepcopy(f["geometry"])})
        if doc.get("features_first"):
            fc = {"type": "FeatureCollection", "features": feats,
                  **{k: copy.deepcopy(v) for k, v in doc["meta"]}}
        else:
            fc["features"] = feats
        return fc

    def geo_mismatch(self, real, doc):
        di = self.di
        import numpy as np
        if not isinstance(real, di.GeoJSON):
            return f"not a GeoJSON: {type(real).__name__}"
        feats = doc["features"]
        keys = list(dict.fromkeys(k for f in feats for k in f["properties"]))
        if real.colnames != keys + ["geometry"]:
            return f"columns {real.colnames!r} != {keys + ['geometry']!r}"
        if real.nrow != len(feats):
            return f"{real.nrow} rows for {len(feats)} features"
        for k in keys:
            col = real[k]
            na = [bool(x) for x in col.is_na()]
            want = [f["properties"].get(k) for f in feats]
            for i, v in enumerate(want):
                if v is None or (isinstance(v, str) and v == ""):
                    if not na[i]:
                        return f"property {k!r} row {i}: expected missing, got {col[i]!r}"
                    continue
                got = col[i]
                got = got.item() if isinstance(got, np.generic) else got
                if na[i] or not loose_value(got, v):
                    return f"property {k!r} row {i}: {got!r} != {v!r}"
        for i, f in enumerate(feats):
            g = real["geometry"][i]
            if f["geometry"] is None:
                if g is not None:
                    return f"geometry row {i}: {g!r} != None"
            elif not same_value(plain(g), f["geometry"]):
                return f"geometry row {i}: {plain(g)!r} != {f['geometry']!r}"
        meta = plain(dict(real.metadata))
        want = {"type": "FeatureCollection", **{k: v for k, v in doc["meta"]}}
        if not same_value(meta, want) and not (meta.keys() == want.keys() and
                                               all(same_value(meta[k], want[k]) for k in want)):
            return f"metadata {meta!r} != {want!r}"
        return None

    def op_geo(self, op):
        """
        source file (independent writer: json.dump) -> GeoJSON.read -> model
        comparison -> write (optionally faulted) -> json.load of the written
        file (independent reader) -> read again.
        """
        di = self.di
        doc, rel, opts = op["doc"], op["path"], op.get("opts", {})
        src_rel = os.path.join("src", os.path.basename(rel).split(".")[0] + ".geojson")
        src = self.path(src_rel)
        os.makedirs(os.path.dirname(src), exist_ok=True)
        enc = opts.get("encoding", "utf-8")
        src_enc = "utf-8" if op.get("encodable") is False else enc
        with open(src, "w", encoding=src_enc) as f:
            json.dump(self.geo_source(doc), f, ensure_ascii=False, indent=op.get("src_indent"))
        if any(f["geometry"] is None for f in doc["features"]):
            self.probes["geojson_null_geometry"] += 1
        if any(('"' in k or "\\" in k) for k, v in doc["meta"]):
            self.probes["geojson_escaped_member_name"] += 1
        self.abstract.append(("geo", self.sfx(rel), enc, (op.get("fault") or {}).get("kind")))
        out = io.StringIO()
        try:
            with contextlib.redirect_stdout(out):
                first = di.GeoJSON.read(src, encoding=src_enc)
        except Exception as e:
            self.viol("C18", "read", f"C18.read-raise|{type(e).__name__}",
                      f"GeoJSON.read raised {e!r} on {self.geo_source(doc)!r}")
            return
        why = self.geo_mismatch(first, doc)
        if why:
            self.viol("C18", "read", "C18.read|differs-from-collection",
                      f"GeoJSON.read: {why}; source={self.geo_source(doc)!r}")
            return
        if out.getvalue().strip():
            self.viol("C18", "read", "C18.read|unexpected-warning", out.getvalue()[:100])
        # write
        path = self.path(rel)
        if not os.path.isdir(os.path.dirname(path)):
            self.probes["nested_dir_created"] += 1
        old_size = os.path.getsize(path) if os.path.exists(path) else None
        fault = op.get("fault")
        plan = FaultPlan(fault)
        wopts = {}
        if "indent" in opts:
            wopts["indent"] = opts["indent"]
        if enc != "utf-8":
            wopts["encoding"] = enc
            self.probes["non_utf8_encoding"] += 1
        err = None
        size = None
        if fault and fault["kind"] == "disk_full":
            probe = self.path(os.path.join("probe", os.path.basename(rel)))
            try:
                first.write(probe, **wopts)
                size = os.path.getsize(probe)
            except Exception:
                pass
            shutil.rmtree(os.path.dirname(probe), ignore_errors=True)
        fired = False
        with xopen_seam(plan):
            try:
                if fault and fault["kind"] == "disk_full" and size is not None:
                    k = int(fault["k"] * size) if not fault.get("edge") else max(0, size - 1)
                    with disk_full(k):
                        first.write(path, **wopts)
                    fired = k < size
                else:
                    first.write(path, **wopts)
                    fired = plan.fired
            except Exception as e:
                err = e
                fired = True if (fault and fault["kind"] == "disk_full") else plan.fired
        if fault:
            if fired:
                self.faults[fault["kind"]] = self.faults.get(fault["kind"], 0) + 1
            else:
                self.probes["fault_armed_not_fired"] += 1
        self.log.append({"op": "geo", "path": rel, "outcome": "ack" if err is None else type(err).__name__})
        if err is not None:
            if isinstance(err, UnicodeEncodeError) and not op.get("encodable", True):
                self.probes["write_failed_loudly"] += 1      # the document has no image in this encoding
            elif not (fault and fired):
                self.viol("C18", "write", f"C18.write-raise|{type(err).__name__}",
                          f"GeoJSON.write raised {err!r} without a fault; doc={doc!r}")
            else:
                self.probes["write_failed_loudly"] += 1
            self.files.pop(rel, None)
            return
        if fault:
            self.probes["ack_under_armed_fault"] += 1
        self.files[rel] = {"fmt": "geojson", "opts": {"encoding": enc}, "doc": doc, "state": "acked"}
        if old_size is not None and os.path.exists(path) and os.path.getsize(path) < old_size:
            self.probes["overwrite_longer_by_shorter"] += 1
        s = self.sfx(rel)
        tag = "after-" + fault["kind"] if fault else "fault-free"
        try:
            with open(path, "rb") as f:
                raw = f.read()
            if s:
                self.probes["magic_checked"] += 1
                if not raw.startswith(MAGIC[s]):
                    self.viol("C18", "magic", f"C18.not-compressed|{s}", f"{rel} starts with {raw[:8]!r}")
                raw = DECOMP[s](raw)
            text = raw.decode(enc)
            loaded = json.loads(text)
        except Exception as e:
            self.viol("C18", "valid-json", f"C18.written-file-not-valid-json|{tag}",
                      f"GeoJSON.write({rel}, {wopts!r}) produced a file the stdlib cannot load: "
                      f"{e!r}; meta={doc['meta']!r}")
            self.files[rel]["state"] = "undefined"
            return
        # same features (absent == null), same order; other members preserved
        why = None
        lf = loaded.get("features")
        if not isinstance(lf, list) or len(lf) != len(doc["features"]):
            why = f"{len(lf) if isinstance(lf, list) else lf!r} features for {len(doc['features'])}"
        else:
            keys = list(dict.fromkeys(k for f in doc["features"] for k in f["properties"]))
            for i, (got, f) in enumerate(zip(lf, doc["features"])):
                if got.get("type") != "Feature":
                    why = f"feature {i} type {got.get('type')!r}"
                    break
                gp = got.get("properties") or {}
                for k in set(keys) | set(gp):
                    a, b = gp.get(k), f["properties"].get(k)
                    if b == "" and a is None:
                        continue    # '' is the library's missing string
                    if not loose_value(a, b):
                        why = f"feature {i} property {k!r}: {a!r} != {b!r}"
                        break
                if why:
                    break
                if not same_value(got.get("geometry"), f["geometry"]):
                    why = f"feature {i} geometry {got.get('geometry')!r} != {f['geometry']!r}"
                    break
        if why is None:
            for k, v in [("type", "FeatureCollection")] + [tuple(x) for x in doc["meta"]]:
                if k not in loaded or not same_value(loaded[k], v):
                    why = f"top-level member {k!r}: {loaded.get(k)!r} != {v!r}"
                    break
        if why:
            self.viol("C18", "written", f"C18.written-file-differs|{tag}",
                      f"file written by GeoJSON.write differs from the collection: {why}")
        if op.get("edit_then_rewrite") is not None and doc["features"]:
            self.geo_edit_and_rewrite(op, first, doc, enc, wopts)
        # re-read equals first read incl. metadata
        try:
            second = di.GeoJSON.read(path, encoding=enc)
        except Exception as e:
            self.viol("C18", "reread", f"C18.reread-raise|{type(e).__name__}|{tag}",
                      f"re-reading the written file raised {e!r}")
            return
        self.acked_reads += 1
        if s:
            self.probes["compressed_roundtrip"] += 1
        if describe(second) != describe(first):
            self.viol("C18", "reread", f"C18.reread-differs|{tag}",
                      f"re-read {describe(second)!r} != first read {describe(first)!r}")

    def geo_edit_and_rewrite(self, op, first, doc, enc, wopts):
        """History: the caller edits a geometry object in place and writes the frame again."""
        i = op["edit_then_rewrite"] % len(doc["features"])
        g = first["geometry"][i]
        new_coords = [[9.5, -9.5], [8, 8]]
        if g is None:
            return
        if "coordinates" in g:
            g["coordinates"] = copy.deepcopy(new_coords)
            expected = dict(doc["features"][i]["geometry"], coordinates=new_coords)
        else:
            g["geometries"] = []
            expected = dict(doc["features"][i]["geometry"], geometries=[])
        path2 = self.path(os.path.join("rewrite", os.path.basename(op["path"]).split(".")[0] + ".geojson"))
        try:
            first.write(path2, **wopts)
            with open(path2, encoding=enc) as f:
                loaded = json.load(f)
            got = loaded["features"][i]["geometry"]
        except Exception as e:
            self.viol("C18", "rewrite", f"C18.rewrite-raise|{type(e).__name__}",
                      f"writing again after an in-place geometry edit failed: {e!r}")
            return
        self.probes["geojson_edit_then_rewrite"] += 1
        if not same_value(got, expected):
            self.viol("C18", "rewrite", "C18.written-file-differs|after-in-place-geometry-edit",
                      f"geometry {i} was edited in place to {expected!r} after an earlier write, but the "
                      f"file written afterwards holds {got!r}")
        # undo, so that the remaining checks of this step still see the model's document
        if "coordinates" in g:
            g["coordinates"] = copy.deepcopy(doc["features"][i]["geometry"]["coordinates"])
        else:
            g["geometries"] = copy.deepcopy(doc["features"][i]["geometry"]["geometries"])

    # -- dispatcher -----------------------------------------------------------

    def execute(self, op):
        self.step += 1
        kind = op["op"]
        self.opcount[kind] = self.opcount.get(kind, 0) + 1
        release = list(self.held)
        out = io.StringIO()
        with contextlib.redirect_stdout(out):
            getattr(self, "op_" + kind)(op)
        if release:
            # now the earlier failed call's exception goes out of scope
            for e in release:
                e.__traceback__ = None
                self.held.remove(e)
            del release, e
            gc.collect()


# ---------------------------------------------------------------------------
# Generation

class Gen:

    def __init__(self, rng, prop, world, tier="quick"):
        self.rng = rng
        self.prop = prop
        self.w = world
        self.tier = tier
        r = rng
        self.nops = r.choice([4, 6, 10, 16, 25])
        self.fault_free = r.random() < 0.35
        self.fault_rate = 0 if self.fault_free else r.choice([0.15, 0.3, 0.5])
        kinds = ["disk_full", "stream_error"]
        self.fault_kinds = [k for k in kinds if r.random() < 0.7] or kinds
        fmts = {"C12": ["pickle", "npz", "parquet", "csv", "csv", "json", "lod_pickle", "lod_json",
                        "lod_csv"],
                "C14": ["csv", "csv", "parquet", "json", "npz", "lod_json", "lod_csv", "geojson"],
                "C18": ["geojson"]}[prop]
        k = r.choice([1, 2, 3, len(fmts)])
        self.fmts = r.sample(fmts, min(k, len(fmts)))
        self.suffixes = r.sample(SUFFIXES, r.choice([1, 2, 4]))
        self.nrows_max = r.choice([1, 2, 4, 8, 12])
        self.hold_failed_writer = r.random() < 0.5
        world.hold_failed_writer = self.hold_failed_writer
        self.counter = 0
        self.pending = []
        self.reuse_dir = None

    def config(self):
        return {"nops": self.nops, "fault_rate": self.fault_rate, "fault_kinds": self.fault_kinds,
                "hold_failed_writer": self.hold_failed_writer,
                "fmts": self.fmts, "suffixes": self.suffixes, "nrows_max": self.nrows_max}

    def strings(self, enc):
        return STR_LATIN1 if enc in ("latin-1", "latin1") else STR_ALPHA

    def column(self, dtype, n, enc="utf-8", na=True):
        r = self.rng
        rate = r.choice([0, 0.2, 0.5, 1.0]) if na else 0
        lead_na = na and r.random() < 0.25
        vals = []
        for i in range(n):
            if dtype not in ("bool", "int") and (r.random() < rate or (lead_na and i == 0)):
                vals.append(None)
                continue
            if dtype == "bool":
                vals.append(r.random() < 0.5)
            elif dtype == "int":
                vals.append(r.choice([0, 1, -1, 7, 42, 10**6, -2**40, 2**53 + 1]))
            elif dtype == "float":
                vals.append(r.choice([0.0, 1.0, -1.5, 2.5, 1e-7, 1e20, 3.141592653589793, 100.0]))
            elif dtype == "str":
                vals.append(r.choice(self.strings(enc)))
            elif dtype == "date":
                vals.append(r.choice(DATES))
            elif dtype == "datetime":
                vals.append(r.choice(DATETIMES))
            elif dtype == "object":
                vals.append(r.choice([1, "a", 2.5, None, True]))
        return vals

    def frame_doc(self, fmt, enc="utf-8"):
        r = self.rng
        n = r.choice([1, 1, 2, 3, self.nrows_max])
        if r.random() < 0.02:
            n = r.choice([300, 700])         # more than one I/O buffer / re-encoding chunk
        names = ["id", "s", "f", "b", "d", "t", "i2", "o", "n m", "ünï"]
        if self.prop == "C14":
            # few names: the same name carries different types in different files of one run,
            # so keyword objects reused across files meet columns of another type
            names = ["id", "s", "f", "n m", "o"]
        if fmt in ("pickle", "npz"):
            dts = ["bool", "int", "float", "str", "date", "datetime", "object"]
        elif fmt == "parquet":
            dts = ["bool", "int", "float", "str", "date", "datetime"]
        elif fmt == "csv":
            dts = ["bool", "int", "float", "str", "date", "datetime"]
        else:
            dts = ["bool", "int", "float", "str"]
        cols = [["id", "int", [i + 1 for i in range(n)]]]
        k = r.choice([0, 1, 2, 3, 5])
        used = {"id"}
        for _ in range(k):
            name = r.choice([x for x in names if x not in used] or ["z"])
            if enc in ("latin-1", "latin1") and name == "ünï":
                name = "u2"
            if name in used:
                continue
            used.add(name)
            dt = r.choice(dts)
            if fmt == "json" and dt == "bool":
                # a boolean column with a missing value is an object column; keep it complete
                cols.append([name, dt, self.column(dt, n, enc, na=False)])
            else:
                cols.append([name, dt, self.column(dt, n, enc)])
        return {"kind": "frame", "cols": cols}

    def lod_doc(self, fmt, enc="utf-8"):
        r = self.rng
        n = r.choice([1, 2, 3, self.nrows_max])
        keys = ["id", "k", "s", "v w"]
        items = []
        numeric_last = fmt == "lod_csv" and r.random() < 0.5
        for i in range(n):
            d = {}
            for k in keys:
                if fmt == "lod_csv":
                    d[k] = r.choice(self.strings(enc) + ["1", "2.5", ""]) if k != "id" else str(i * 3 + 1)
                    if k == "v w" and numeric_last:
                        d[k] = str(r.choice([0, 7, 42, 100]))
                else:
                    if k != "id" and r.random() < 0.25:
                        continue
                    d[k] = r.choice([None, True, 1, 2.5, "x", r.choice(self.strings(enc)), 0, "", 1.0, False,
                                     0.0])
                    if k == "s" and r.random() < 0.15:
                        d[k] = {"id": 71, "q": [1, {"k": None}]}      # nested object reusing key names
            if fmt != "lod_csv":
                d["id"] = i
            items.append(d)
        return {"kind": "lod", "items": items}

    def geometry(self):
        r = self.rng
        kind = r.choice(["Point", "LineString", "Polygon", "MultiPoint", "MultiLineString",
                         "MultiPolygon", "GeometryCollection", None, None])
        if kind is None:
            return None
        pt = lambda: [r.choice([0, 1.5, -73.9, 24]), r.choice([0, 60.1, 40.7])]
        if kind == "Point":
            return {"type": kind, "coordinates": pt()}
        if kind in ("LineString", "MultiPoint"):
            return {"type": kind, "coordinates": [pt(), pt()]}
        if kind in ("Polygon", "MultiLineString"):
            return {"type": kind, "coordinates": [[pt(), pt(), pt(), pt()]]}
        if kind == "MultiPolygon":
            return {"type": kind, "coordinates": [[[pt(), pt(), pt(), pt()]]]}
        return {"type": kind, "geometries": [{"type": "Point", "coordinates": pt()}]}

    def geo_doc(self, enc="utf-8"):
        r = self.rng
        n = r.choice([0, 1, 2, 3, 8]) if r.random() < 0.9 else 1
        if r.random() < 0.04:
            n = r.choice([16, 32, 64, 128, 100, 256])       # batch / buffer size boundaries
        keytypes = {"name": "str", "pop": "int", "area": "float", "cap": "bool", "n m": "str"}
        keys = r.sample(list(keytypes), r.choice([0, 1, 2, 3, 5]))
        feats = []
        for i in range(n):
            props = {}
            for k in keys:
                if r.random() < 0.3:
                    continue
                t = keytypes[k]
                if r.random() < 0.2:
                    props[k] = None
                elif t == "str":
                    props[k] = r.choice(self.strings(enc))
                elif t == "int":
                    props[k] = r.choice([0, 1, 42, -7, 10**9])
                elif t == "float":
                    props[k] = r.choice([0.5, 2.25, -1.5, 1e-3, 12345.678])
                else:
                    props[k] = r.random() < 0.5
            if r.random() < 0.4:
                ks = list(props)
                r.shuffle(ks)
                props = {k: props[k] for k in ks}        # same members, another order
            feats.append({"properties": props, "geometry": self.geometry()})
        meta = []
        mnames = ["crs", "name", "bbox", 'we"ird', "back\\slash", "ünï" if enc != "latin-1" else "u",
                  "sp ace"]
        for name in r.sample(mnames, r.choice([0, 1, 2, 3])):
            meta.append([name, r.choice([1, "text", [1, 2, [3]], {"a": {"b": None}}, None, True,
                                         2.5, 'q"uote', {"type": "name", "properties": {"name": "EPSG:4326"}}])])
        return {"kind": "geojson", "features": feats, "meta": meta,
                "features_first": r.random() < 0.3}

    def opts_for(self, fmt):
        r = self.rng
        o = {}
        if fmt in ("csv", "lod_csv"):
            if r.random() < 0.5:
                o["sep"] = r.choice([",", ";", "\t", "|"])
            if r.random() < 0.3:
                o["header"] = r.random() < 0.5
            if r.random() < 0.35:
                o["encoding"] = r.choice(["utf-8", "utf-16", "latin-1", "utf16", "UTF_16", "latin1", "UTF8"])
        elif fmt in ("json", "lod_json"):
            if r.random() < 0.3:
                o["encoding"] = r.choice(["utf-16", "latin-1", "utf16", "UTF_16", "latin1"])
            if r.random() < 0.3:
                o["indent"] = r.choice([None, 0, 4])
        elif fmt == "npz":
            if r.random() < 0.3:
                o["compress"] = True
        return o

    def fault(self, reading=False):
        r = self.rng
        if r.random() >= self.fault_rate:
            return None
        kind = r.choice(self.fault_kinds)
        if reading:
            return {"kind": "stream_error", "call": "read", "n": r.choice([1, 1, 2, 3]), "errno": "EIO"}
        if kind == "disk_full":
            f = {"kind": "disk_full", "k": r.choice([0.0, 0.1, 0.5, 0.9, 0.99, r.random()])}
            if r.random() < 0.2:
                f["edge"] = "minus1"
            return f
        return {"kind": "stream_error", "call": "write", "n": r.choice([1, 1, 2, 3, 5, 9]),
                "errno": r.choice(["ENOSPC", "EIO"])}

    def new_path(self, fmt):
        r = self.rng
        kind, ext, sfx, binary = FORMATS[fmt]
        allowed = [s for s in self.suffixes if s in sfx] or [sfx[0]]
        s = r.choice(allowed)
        self.counter += 1
        d = r.choice(["", "", "d1", "d1/d2", "new%d/deep" % self.counter])
        if self.reuse_dir is not None and r.random() < 0.7:
            d, self.reuse_dir = self.reuse_dir, None        # write again below a removed directory
        return os.path.join(d, "f%d%s%s" % (self.counter, ext, s))

    def existing(self, fmts=None, states=("acked",)):
        c = [p for p, i in sorted(self.w.files.items())
             if i["state"] in states and (fmts is None or i["fmt"] in fmts)]
        return self.rng.choice(c) if c else None

    def g_write(self):
        r = self.rng
        fmt = r.choice(self.fmts)
        if fmt == "geojson":
            return self.g_geo()
        opts = self.opts_for(fmt)
        enc = opts.get("encoding", "utf-8")
        doc = self.frame_doc(fmt, enc) if FORMATS[fmt][0] == "frame" else self.lod_doc(fmt, enc)
        # overwrite an existing path of the same format sometimes
        old = self.existing([fmt], states=("acked", "torn", "undefined"))
        path = old if (old and r.random() < 0.35) else self.new_path(fmt)
        op = {"op": "write", "fmt": fmt, "path": path, "opts": opts, "doc": doc}
        if r.random() < 0.12:
            op["relative"] = True
        f = self.fault()
        if f:
            op["fault"] = f
            if r.random() < 0.5:
                # macro: the caller retries the same write (another document) straight away
                doc2 = self.frame_doc(fmt, enc) if FORMATS[fmt][0] == "frame" else self.lod_doc(fmt, enc)
                self.pending.append({"op": "write", "fmt": fmt, "path": path, "opts": copy.deepcopy(opts),
                                     "doc": doc2})
                self.pending.append({"op": "read", "path": path})
        return op

    def g_geo(self):
        r = self.rng
        enc = r.choice(["utf-8", "utf-8", "utf-8", "utf-16", "latin-1"])
        doc = self.geo_doc(enc)
        opts = {"encoding": enc}
        if r.random() < 0.6:
            opts["indent"] = r.choice([None, 0, 2, 4])
        old = self.existing(["geojson"], states=("acked", "torn", "undefined"))
        op = {"op": "geo", "path": old if (old and r.random() < 0.25) else self.new_path("geojson"),
              "opts": opts, "doc": doc, "src_indent": r.choice([None, 2])}
        if enc == "latin-1" and doc["features"] and r.random() < 0.25:
            # a value with no image in the target encoding: the write must fail loudly (or be exact)
            doc["features"][0]["properties"]["name"] = r.choice(["emoji \U0001f600", "日本", "ł"])
            op["encodable"] = False
        if r.random() < 0.3:
            op["edit_then_rewrite"] = r.randrange(8)
        f = self.fault()
        if f:
            op["fault"] = f
        return op

    def g_read(self):
        p = self.existing(states=("acked", "torn"))
        if p is None:
            return self.g_write()
        op = {"op": "read", "path": p}
        if self.w.files[p]["fmt"] not in ("npz", "parquet"):
            f = self.fault(reading=True)
            if f:
                op["fault"] = f
        return op

    def g_rewrite(self):
        r = self.rng
        fmt = r.choice([f for f in self.fmts if f in ("pickle", "parquet", "csv", "json", "npz")] or ["json"])
        doc = self.frame_doc(fmt)
        if fmt in ("json", "csv", "parquet") and r.random() < 0.5:
            # an object column of ints with missing cells; the edit fills a missing cell
            n = len(doc["cols"][0][2])
            vals = [r.choice([None, None, 5, 7]) for _ in range(n)]
            vals[r.randrange(n)] = None
            if any(v is not None for v in vals) or n == 1:
                doc["cols"].append(["oi", "objint", vals])
                ri = [i for i, v in enumerate(vals) if v is None][0]
                self.counter += 1
                return {"op": "rewrite", "fmt": fmt, "doc": doc, "edit": [len(doc["cols"]) - 1, ri, 77],
                        "path": "rw%d" % self.counter, "opts": {}}
        cand = [(i, c) for i, c in enumerate(doc["cols"]) if c[1] in ("int", "float", "str", "object", "bool", "date")
                and i > 0]
        if not cand:
            return self.g_write()
        ci, (name, dtype, values) = r.choice(cand)
        ri = r.randrange(len(values))
        val = {"int": 77, "float": 0.125, "str": "edited", "object": "edited", "bool": not values[ri],
               "date": "2001-02-03"}[dtype]
        if fmt in ("csv", "json") and dtype == "object":
            return self.g_write()
        self.counter += 1
        return {"op": "rewrite", "fmt": fmt, "doc": doc, "edit": [ci, ri, val], "path": "rw%d" % self.counter,
                "opts": {}}

    def g_restart(self):
        p = self.existing()
        if p is None:
            return self.g_write()
        return {"op": "restart", "path": p}

    def g_rmtree(self):
        dirs = sorted({os.path.dirname(p) for p in self.w.files if os.path.dirname(p)})
        if not dirs:
            return self.g_write() if self.prop != "C18" else self.g_geo()
        d = self.rng.choice(dirs)
        self.reuse_dir = d
        return {"op": "rmtree", "dir": d}

    def g_truncate(self):
        p = self.existing()
        if p is None:
            return self.g_write()
        op = {"op": "truncate", "path": p, "frac": self.rng.choice([0.0, 0.3, 0.5, 0.9, 0.99])}
        if self.rng.random() < 0.25:
            op["edge"] = "minus1"
        return op

    def extra_for(self, p, restrict):
        r = self.rng
        info = self.w.files[p]
        fmt, doc = info["fmt"], info["doc"]
        if fmt in ("csv", "parquet", "json") and self.w.extra_pool and r.random() < 0.4 and \
                not (fmt == "csv" and info["opts"].get("header") is False):
            # the caller reuses an earlier mapping / list object where it fits this file
            types = {c[0]: c[1] for c in doc["cols"]}
            fits = [e for e in self.w.extra_pool
                    if set(e) <= {"columns", "dtypes"}
                    and all(n in types for n in e.get("columns", []))
                    and all(n in types and types[n] == "int" for n in e.get("dtypes", {}))
                    and (not e.get("columns") or all(n in e["columns"] for n in e.get("dtypes", {})))]
            if fits:
                self.w.probes["reused_keyword_object"] += 1
                return copy.deepcopy(r.choice(fits))
        lit = {}
        if fmt in ("csv", "parquet", "json"):
            names = [c[0] for c in doc["cols"]]
            if fmt == "csv" and info["opts"].get("header") is False:
                names = ["a", "b", "c", "d", "e", "f", "g"][:len(names)]
            if r.random() < 0.8:
                k = r.randint(1, min(4, len(names)))
                sub = r.sample(names, k)
                lit["columns"] = sub
            fna = [c[0] for c in doc["cols"] if c[1] == "float" and any(v is None for v in c[2])]
            if fmt in ("csv", "parquet") and fna and r.random() < 0.3 and \
                    not (fmt == "csv" and info["opts"].get("header") is False):
                name = r.choice(fna)
                lit["dtypes"] = {name: r.choice(["object", "str"])}
                if lit.get("columns") and name not in lit["columns"]:
                    lit["columns"].append(name)
                return lit
            strs = [c[0] for c in doc["cols"] if c[1] == "str" and any(v for v in c[2])]
            if fmt in ("csv", "parquet") and strs and r.random() < 0.12 and \
                    not (fmt == "csv" and info["opts"].get("header") is False):
                # a cast that must fail part-way through the read (fault inside a read);
                # nothing is claimed about this call, but later reads must be unaffected
                name = r.choice(strs)
                lit["dtypes"] = {name: "float"}
                if lit.get("columns") and name not in lit["columns"]:
                    lit["columns"].append(name)
                return lit
            if fmt in ("csv", "parquet") and r.random() < 0.2 and \
                    not (fmt == "csv" and info["opts"].get("header") is False):
                cand = [c[0] for c in doc["cols"] if c[1] in ("float", "bool", "int")
                        and not any(v is None for v in c[2])
                        and (not lit.get("columns") or c[0] in lit["columns"])]
                if cand:
                    lit["dtypes"] = {r.choice(cand): "str"}
                    return lit
            if r.random() < 0.4:
                ints = [c[0] for c in doc["cols"] if c[1] == "int"]
                if fmt == "csv" and info["opts"].get("header") is False:
                    ints = []
                cand = [n for n in ints if not lit.get("columns") or n in lit["columns"]]
                if cand:
                    lit["dtypes"] = {r.choice(cand): r.choice(["float", "object"])}
        elif fmt == "npz":
            if r.random() < 0.5:
                lit["allow_pickle"] = r.random() < 0.7
        elif fmt in ("lod_json", "lod_csv"):
            keys = list(dict.fromkeys(k for x in doc["items"] for k in x))
            if fmt == "lod_csv" and info["opts"].get("header") is False:
                keys = ["a", "b", "c", "d"][:len(keys)]
            if keys and r.random() < 0.8:
                lit["keys"] = r.sample(keys, r.randint(1, min(4, len(keys))))
            if fmt == "lod_json" and r.random() < 0.4 and "id" in (lit.get("keys") or keys):
                lit["types"] = {"id": r.choice(["float", "str"])}
                if r.random() < 0.5 and "k" in (lit.get("keys") or keys):
                    lit["types"]["k"] = "str"        # mixed values None/True/1/1.0/2.5/'x'
            if fmt == "lod_csv" and r.random() < 0.5 and info["opts"].get("header") is not False \
                    and "id" in (lit.get("keys") or keys):
                lit["types"] = {"id": r.choice(["int", "float"])}
            if fmt == "lod_csv" and r.random() < 0.6 and info["opts"].get("header") is not False \
                    and "v w" in (lit.get("keys") or keys) \
                    and all(str(x.get("v w", "")).isdigit() for x in doc["items"]):
                lit.setdefault("types", {})["v w"] = r.choice(["int", "float"])
        elif fmt == "geojson":
            keys = list(dict.fromkeys(k for f in doc["features"] for k in f["properties"]))
            if keys and r.random() < 0.8:
                lit["columns"] = r.sample(keys, r.randint(1, min(3, len(keys))))
            if not restrict and r.random() < 0.3:
                lit["parse_float"] = "str"
        if fmt == "lod_json" and not restrict and r.random() < 0.3:
            lit[r.choice(["parse_float", "parse_int"])] = r.choice(["str", "float"])
        return lit

    def g_routes(self):
        p = self.existing(["csv", "npz", "parquet", "lod_json", "geojson"], states=("acked", "torn"))
        if p is None:
            return self.g_write()
        return {"op": "routes", "path": p, "extra": self.extra_for(p, False)}

    def g_restrict(self):
        p = self.existing(["csv", "json", "parquet", "lod_json", "lod_csv", "geojson"])
        if p is None:
            return self.g_write()
        op = {"op": "restrict", "path": p, "extra": self.extra_for(p, True)}
        info = self.w.files[p]
        dts = op["extra"].get("dtypes") or {}
        types = {c[0]: c[1] for c in info["doc"].get("cols", [])} if info["fmt"] in ("csv", "parquet") else {}
        if any(types.get(n) == "str" for n in dts) and self.rng.random() < 0.7:
            # macro: a read that fails part-way, then the caller reuses the very same keyword
            # objects on a sibling file in which the same names carry integers
            fmt = info["fmt"]
            n = len(info["doc"]["cols"][0][2])
            cols = []
            for name, dt, vals in info["doc"]["cols"]:
                cols.append([name, "int", [self.rng.choice([0, 1, 7, 42, -1]) for _ in range(n)]]
                            if dt == "str" or self.rng.random() < 0.3 else [name, dt, copy.deepcopy(vals)])
            path2 = self.new_path(fmt)
            self.pending.append({"op": "write", "fmt": fmt, "path": path2, "opts": {},
                                 "doc": {"kind": "frame", "cols": cols}})
            self.pending.append({"op": "restrict", "path": path2, "extra": copy.deepcopy(op["extra"])})
        if self.w.files[p]["fmt"] in ("csv", "parquet", "lod_json", "geojson") and self.rng.random() < 0.4:
            op["route"] = "alias"
        return op

    def next_op(self):
        r = self.rng
        if self.pending:
            return self.pending.pop(0)
        if self.prop == "C18":
            table = [("geo", 6), ("read", 2), ("truncate", 0.5), ("rmtree", 0.3)]
        elif self.prop == "C14":
            table = [("write", 4), ("routes", 3), ("restrict", 4), ("truncate", 1), ("read", 1), ("rmtree", 0.2)]
        else:
            table = [("write", 5), ("read", 3), ("truncate", 0.7), ("routes", 0.5), ("restrict", 0.5),
                     ("restart", 0.01 if self.tier != "thorough" else 0.08), ("rmtree", 0.3), ("rewrite", 0.6)]
        if not self.w.files:
            return self.g_geo() if self.prop == "C18" else self.g_write()
        name = r.choices([n for n, w in table], [w for n, w in table])[0]
        return getattr(self, "g_" + name)()


# ---------------------------------------------------------------------------

_run_counter = [0]


def _run(prop, rng=None, trace=None, tier="quick"):
    os.environ.setdefault("DATAITER_USE_NUMBA", "0")
    import dataiter  # noqa
    signal.signal(signal.SIGXFSZ, signal.SIG_IGN)
    sys.unraisablehook = lambda *a: None      # destructor noise of writers that failed on purpose
    _run_counter[0] += 1
    root = os.path.join(os.environ.get("DSIM_SCRATCH") or "/tmp",
                        f"e3-{os.getpid()}-{_run_counter[0]}")
    os.makedirs(root, exist_ok=True)
    world = World(prop, root)
    ops_done = []
    try:
        if trace is None:
            gen = Gen(rng, prop, world, tier)
            config = gen.config()
            for _ in range(gen.nops):
                op = gen.next_op()
                rec = copy.deepcopy(op)
                world.execute(op)
                ops_done.append(rec)
        else:
            config = trace["config"]
            world.hold_failed_writer = bool(config.get("hold_failed_writer"))
            for op in trace["ops"]:
                rec = copy.deepcopy(op)
                world.execute(copy.deepcopy(op))
                ops_done.append(rec)
    finally:
        shutil.rmtree(root, ignore_errors=True)
    return kernel.RunResult(
        violations=world.violations,
        steps=len(ops_done),
        faults=world.faults,
        probes=world.probes,
        opcount=world.opcount,
        digest=kernel.digest(world.log),
        abstract=kernel.digest(world.abstract),
        nontrivial=len(ops_done) >= 3 and world.acked_reads >= 1,
        trace={"config": config, "ops": ops_done},
    )


def run_seed(seed, prop, tier):
    return _run(prop, rng=random.Random(seed), tier=tier)


def replay(trace, prop):
    return _run(prop, trace=trace)


PROBE_SCOPE = {
    "C12": ["ack_under_armed_fault", "write_failed_loudly", "overwrite_longer_by_shorter",
            "nested_dir_created", "compressed_roundtrip", "magic_checked", "torn_read_raised",
            "torn_read_returned", "non_utf8_encoding", "fault_armed_not_fired", "read_fault_fired",
            "failed_overwrite_of_acked_file", "edit_then_rewrite"],
    "C14": ["restricted_read_checked", "alias_route_checked", "reordered_restriction", "typemap_checked",
            "failing_cast_read", "reused_keyword_object", "torn_read_raised", "torn_read_returned",
            "non_utf8_encoding", "compressed_roundtrip"],
    "C18": ["ack_under_armed_fault", "write_failed_loudly", "overwrite_longer_by_shorter",
            "nested_dir_created", "compressed_roundtrip", "magic_checked", "non_utf8_encoding",
            "fault_armed_not_fired", "geojson_escaped_member_name", "geojson_null_geometry",
            "geojson_edit_then_rewrite", "read_fault_fired"],
}


def extra_coverage(total, prop):
    probes = total.get("probes", {})
    scope = PROBE_SCOPE.get(prop, list(probes))
    return {"representable_domain": DOMAIN,
            "probes": {k: probes.get(k, 0) for k in scope},
            "probes_stuck_at_zero": sorted(k for k in scope if not probes.get(k, 0)),
            "probes_out_of_scope_for_this_property": sorted(k for k in probes if k not in scope)}
